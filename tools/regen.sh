#!/bin/bash
# Rebuild govc, regenerate the obligation baseline, run every claimed check on the current tree and
# validate the evidence files. Run on the CLEAN tree before committing evidence.
export GOFLAGS=-mod=mod GOPROXY=off GOSUMDB=off GOTOOLCHAIN=local
cd /verif/govc && go build -o /verif/bin/govc ./cmd/govc || exit 2
cd /verif && /verif/bin/govc baseline || exit 2
/verif/bin/govc witnesslists > /tmp/witnesslists.log 2>&1 || { echo "a listed boundary input fails on the current tree:"; grep FAILS /tmp/witnesslists.log; exit 2; }
python3 tools/mkmanifest.py >/dev/null
fail=0
for p in $(python3 -c "import json; print(' '.join(c['property_id'] for c in json.load(open('/verif/MANIFEST.json'))['checks']))"); do
  out=$(./check $p quick 2>&1); code=$?
  echo "$out" | tail -1
  if [ $code -ne 0 ]; then echo "  !! $p exit=$code"; echo "$out" | grep -E "VIOLATION|ENGINE" | head -5; fail=1; fi
done
python3-vt - <<'PY'
import json, jsonschema, glob
sch=json.load(open('/root/.vp/EVIDENCE.schema.json'))
for f in sorted(glob.glob('/verif/evidence/*.json')):
    d=json.load(open(f)); jsonschema.validate(d, sch)
    c=d['coverage']
    assert c['obligations']==c['discharged'], f
jsonschema.validate(json.load(open('/verif/MANIFEST.json')), json.load(open('/root/.vp/MANIFEST.schema.json')))
print("evidence and manifest valid")
PY
exit $fail
