#!/bin/bash
# tools/seedimport.sh <src-seed-dir> <dest-id> <demo-pkg-dir> <property> <check...>
# Confirms a seeded change (suite passes with it, demo fails with it, demo passes without it), runs
# the given checks against it and stores it under /verif/seeded/<dest-id>/.
export GOFLAGS=-mod=mod GOPROXY=off GOSUMDB=off GOTOOLCHAIN=local
src=$1; id=$2; pkg=$3; prop=$4; shift 4
dst=/verif/seeded/$id; mkdir -p $dst
cp $src/patch.diff $src/demo_test.go $dst/; cp $src/notes.txt $dst/notes.txt 2>/dev/null
cd /repo || exit 2
git diff --quiet || { echo "REPO NOT CLEAN"; exit 2; }
# demo on the clean tree
cp $dst/demo_test.go /repo/$pkg/zz_seed_demo_test.go
clean=fails; (cd /repo/$pkg && go test -vet=off -count=1 -run 'TestSeedDemo' . >/dev/null 2>&1) && clean=passes
rm -f /repo/$pkg/zz_seed_demo_test.go
res=$(/verif/tools/seedcheck.sh $dst $pkg "$@")
echo "$id: clean-demo=$clean ; $res" | tr '\n' ' '; echo
python3 - "$dst" "$prop" "$clean" "$res" "$pkg" "$@" <<'PY'
import json, sys, re
dst, prop, clean, res, pkg = sys.argv[1:6]
checks = sys.argv[6:]
notes = open(dst+'/notes.txt').read() if True else ''
det = {}
for m in re.finditer(r'check (C\d+): exit=(\d+) violations=(\d+)\s*(.*)', res):
    det[m.group(1)] = {"exit": int(m.group(2)), "violations": int(m.group(3)), "first_report": m.group(4).strip()}
meta = {
 "breaks_property": prop,
 "demo_package_dir": pkg,
 "needs_to_manifest": notes.strip().split('\n')[0:6],
 "confirmed_by_me": {
   "suite_with_patch": "pass" if "suite=pass" in res else "FAIL",
   "demo_with_patch": "fails" if "demo(with patch)=fails" in res else "passes",
   "demo_on_clean_tree": clean,
   "commands": ["git -C /repo apply patch.diff", "cd /repo && go test -vet=off -count=1 ./...", "go test -run TestSeedDemo (demo copied into /repo/%s)" % pkg, "git -C /repo checkout -- ."],
 },
 "checks_run": det,
 "origin": "written by an independent sub-agent that saw only the property text and a scratch worktree",
}
json.dump(meta, open(dst+'/meta.json','w'), indent=1)
PY
