package main

import (
	"fmt"
	"os"
	"sort"
	"strings"
	"sync"
	"time"
)

func main() {
	defer cleanupScratch()
	if len(os.Args) < 2 {
		fmt.Fprintln(os.Stderr, "usage: govc funcs <key>... | check <id> <tier>")
		os.Exit(2)
	}
	switch os.Args[1] {
	case "baseline":
		// govc baseline : writes /verif/baseline/obligations.json (stable obligation names per property)
		os.Exit(writeBaseline())
	case "replay":
		if len(os.Args) < 3 {
			fmt.Fprintln(os.Stderr, "usage: govc replay <replay-file>")
			os.Exit(2)
		}
		os.Exit(runReplayFile(os.Args[2]))
	case "check":
		if len(os.Args) < 3 {
			fmt.Fprintln(os.Stderr, "usage: govc check <id> [quick|thorough]")
			os.Exit(2)
		}
		o := checkOpts{id: os.Args[2], tier: "quick", verifDir: "/verif", repoDir: "/repo"}
		if len(os.Args) > 3 {
			o.tier = os.Args[3]
		}
		if t := os.Getenv("VERIF_TIER"); t != "" && len(os.Args) <= 3 {
			o.tier = t
		}
		if s := os.Getenv("VERIF_SEED"); s != "" {
			fmt.Sscanf(s, "%d", &o.seed)
		}
		if d := os.Getenv("GOVC_REPO"); d != "" {
			o.repoDir = d
		}
		if d := os.Getenv("GOVC_VERIF"); d != "" {
			// a snapshot of /verif (spec, baseline, known findings, replay harnesses): used when
			// seeded changes are re-checked in a scratch copy while /verif is being edited
			o.verifDir = d
		}
		code := runCheck(o)
		cleanupScratch()
		os.Exit(code)
	case "lemmas":
		p, err := loadProg("/repo", "/verif/spec")
		if err != nil {
			fmt.Fprintln(os.Stderr, "ENGINE-ERROR:", err)
			os.Exit(2)
		}
		p.prepareLemmaAxioms()
		for _, lm := range p.spec.Lemmas {
			if len(os.Args) > 2 && !strings.Contains(lm.Name, os.Args[2]) {
				continue
			}
			t0 := time.Now()
			r := p.checkLemma(lm)
			if r.Err != "" {
				fmt.Printf("ERR  %s: %s\n", lm.Name, r.Err)
				continue
			}
			solveAll([]*Obligation{r.Ob}, 60, 0, 1)
			fmt.Printf("%-5s %-40s A=%d B=%d prod=%d classes=%d %s %.2fs (total %.2fs) wit=%q\n", r.Ob.Result.Verdict, lm.Name, r.StatesA, r.StatesB, r.Product, r.Classes, r.Ob.Result.Solver, r.Ob.Result.Seconds, time.Since(t0).Seconds(), r.Witness)
		}
	case "witnesslists":
		// self-test: every listed boundary input must be accepted by its oracle on the current tree
		// (an input that fails on the unchanged code would be blamed on whatever change is under test)
		p, err := loadProg("/repo", "/verif/spec")
		if err != nil {
			fmt.Fprintln(os.Stderr, "ENGINE-ERROR:", err)
			os.Exit(2)
		}
		defer cleanupScratch()
		o := checkOpts{verifDir: "/verif", repoDir: "/repo"}
		bad := 0
		for _, wl := range p.witnessLists() {
			var jobs []replayJob
			for i, in := range wl.Inputs {
				jobs = append(jobs, replayJob{ID: fmt.Sprint(i), Kind: wl.Kind, Args: map[string]string{wl.Arg: in}})
			}
			rs, err := p.runHarness(o, wl.Pkg, jobs)
			if err != nil {
				fmt.Println("cannot run", wl.Func, err)
				bad++
				continue
			}
			nb := 0
			for _, r := range rs {
				if !r.OK {
					nb++
					fmt.Printf("FAILS ON THE CURRENT TREE: %s %s: %s\n", wl.Func, wl.Kind, r.Detail)
				}
			}
			fmt.Printf("%s: %d inputs, %d fail\n", wl.Func, len(rs), nb)
			bad += nb
		}
		if bad > 0 {
			cleanupScratch()
			os.Exit(1)
		}
	case "stab":
		// govc stab N KEY...: solve every obligation of the functions under N different solver seeds,
		// without retries, and list the obligations that are not discharged under some seed
		p, err := loadProg("/repo", "/verif/spec")
		if err != nil {
			fmt.Fprintln(os.Stderr, "ENGINE-ERROR:", err)
			os.Exit(2)
		}
		p.prepareLemmaAxioms()
		n := 5
		fmt.Sscanf(os.Args[2], "%d", &n)
		keys := os.Args[3:]
		if len(keys) == 0 {
			for k, c := range p.spec.Contracts {
				if !c.Assumed {
					keys = append(keys, k)
				}
			}
			sort.Strings(keys)
		}
		noRetry = true
		for _, k := range keys {
			rep := p.verifyFunc(k)
			bad := map[string][]int{}
			slow := map[string]float64{}
			for seed := 1; seed <= n; seed++ {
				for _, ob := range rep.Obs {
					ob.Result = nil
				}
				solveAll(rep.Obs, 25, seed, 14)
				for _, ob := range rep.Obs {
					if ob.Result == nil || ob.Result.Verdict != ob.Expect {
						bad[ob.Name] = append(bad[ob.Name], seed)
					} else if ob.Result.Seconds > slow[ob.Name] {
						slow[ob.Name] = ob.Result.Seconds
					}
				}
			}
			for nm, seeds := range bad {
				fmt.Printf("UNSTABLE %s fails under seeds %v of 1..%d\n", nm, seeds, n)
			}
			for nm, sec := range slow {
				if sec > 5 {
					fmt.Printf("SLOW     %s up to %.1fs\n", nm, sec)
				}
			}
		}
	case "funcs":
		p, err := loadProg("/repo", "/verif/spec")
		if err != nil {
			fmt.Fprintln(os.Stderr, "ENGINE-ERROR:", err)
			os.Exit(2)
		}
		p.prepareLemmaAxioms()
		keys := os.Args[2:]
		if len(keys) == 0 {
			for k, c := range p.spec.Contracts {
				if !c.Assumed {
					keys = append(keys, k)
				}
			}
			sort.Strings(keys)
		}
		for _, k := range keys {
			if !strings.Contains(k, "/") && !strings.HasPrefix(k, modPath) {
				k = modPath + "." + k
			}
			t0 := time.Now()
			rep := p.verifyFunc(k)
			solveAll(rep.Obs, 10, 0, 16)
			fmt.Printf("== %s  (%d obligations, %.1fs)\n", k, len(rep.Obs), time.Since(t0).Seconds())
			if rep.Err != "" {
				fmt.Println("   ERROR:", rep.Err)
			}
			for _, se := range scriptErrors {
				fmt.Println("   SCRIPT-ERROR:", se)
			}
			scriptErrors = nil
			for _, ob := range rep.Obs {
				status := "FAIL"
				if ob.Result != nil {
					if ob.Result.Verdict == ob.Expect {
						status = "ok"
					}
					fmt.Printf("   %-4s %-60s %s %s %.2fs  %s\n", status, ob.Name, ob.Result.Verdict, ob.Result.Solver, ob.Result.Seconds, ob.Pos)
					if os.Getenv("GOVC_DEBUG") == "all" && ob.fx != nil {
						os.WriteFile("/tmp/govc_all_"+sanitizeIdent(ob.Name)+".smt2", []byte(ob.fx.scriptFor(ob)), 0o644)
					}
					if status == "FAIL" && os.Getenv("GOVC_DEBUG") != "" {
						fmt.Println(truncate(ob.Result.Output, 3000))
						os.WriteFile("/tmp/govc_fail_"+sanitizeIdent(ob.Name)+".smt2", []byte(ob.fx.scriptFor(ob)), 0o644)
						os.WriteFile("/tmp/govc_fail_"+sanitizeIdent(ob.Name)+".full.smt2", []byte(ob.fx.scriptForMode(ob, false)), 0o644)
					}
				}
			}
		}
	}
}

var noRetry bool

func solveAll(obs []*Obligation, timeoutS, seed, par int) {
	var wg sync.WaitGroup
	sem := make(chan struct{}, par)
	for _, ob := range obs {
		wg.Add(1)
		go func(ob *Obligation) {
			defer wg.Done()
			sem <- struct{}{}
			defer func() { <-sem }()
			if ob.Result != nil {
				return
			}
			if ob.Goal == "true" && ob.Expect == VUnsat {
				ob.Result = &SolveResult{Verdict: VUnsat, Solver: "simplifier"}
				return
			}
			script := ob.Script
			if script == "" {
				func() {
					defer func() {
						if r := recover(); r != nil {
							noteScriptError(fmt.Sprintf("%s: cannot assemble the script: %v", ob.Name, r))
						}
					}()
					script = ob.fx.scriptFor(ob)
				}()
				if script == "" {
					ob.Result = &SolveResult{Verdict: VUnknown, Output: "script assembly failed"}
					return
				}
			}
			to := timeoutS
			if ob.Canary {
				to = 3
			}
			// the pruned script first, briefly; then the script with every assumption (relevance pruning may
			// have dropped a needed one); then the pruned script with the whole budget
			short := to
			if ob.Script == "" && !ob.Canary && short > 4 {
				short = 4
			}
			r := solve(script, short, seed, false)
			if ob.Script == "" && !ob.Canary && r.Verdict != VUnsat {
				full := ob.fx.scriptForMode(ob, false)
				if full != script {
					r2 := solve(full, to, seed, false)
					if r2.Verdict == VUnsat || r.Verdict == VUnknown {
						r2.Seconds += r.Seconds
						r = r2
					}
				}
				if r.Verdict == VUnknown && short < to {
					r3 := solve(script, to, seed, false)
					r3.Seconds += r.Seconds
					r = r3
				}
			}
			if !noRetry && !ob.Canary && r.Verdict == VUnknown && ob.Expect == VUnsat {
				// solvers are sensitive to their random seed: two more attempts before "unknown" counts
				for _, sd := range []int{seed + 7, seed + 13} {
					r3 := solve(script, to, sd, false)
					r3.Seconds += r.Seconds
					if r3.Verdict != VUnknown {
						r = r3
						break
					}
					r.Seconds = r3.Seconds
				}
			}
			if ob.Canary && r.Verdict != VUnsat {
				r.Verdict = VSat // not refuted: the path is not provably dead
				if r.Solver == "" {
					r.Solver = "canary(not-unsat)"
				}
			}
			ob.Result = &r
		}(ob)
	}
	wg.Wait()
}
