package main

// Replay on the real code: a test file from /verif/replay is injected into the package with
// `go test -overlay` (nothing is written into /repo); jobs go in through a JSON file.

import (
	"encoding/json"
	"fmt"
	"os"
	"os/exec"
	"path/filepath"
	"strings"
	"time"
)

type replayJob struct {
	ID   string            `json:"id"`
	Kind string            `json:"kind"`
	Args map[string]string `json:"args,omitempty"`
	List []string          `json:"list,omitempty"`
}

type replayRes struct {
	ID     string `json:"id"`
	OK     bool   `json:"ok"`
	Detail string `json:"detail"`
}

var harnessFiles = map[string]string{
	".":                     "safehtml_replay_test.go.txt",
	"template":              "template_replay_test.go.txt",
	"internal/safehtmlutil": "safehtmlutil_replay_test.go.txt",
}

func (p *Prog) runHarness(o checkOpts, pkgRel string, jobs []replayJob) ([]replayRes, error) {
	hf, ok := harnessFiles[pkgRel]
	if !ok {
		return nil, fmt.Errorf("no replay harness for package %q", pkgRel)
	}
	src := filepath.Join(o.verifDir, "replay", hf)
	if _, err := os.Stat(src); err != nil {
		return nil, fmt.Errorf("replay harness %s is missing", src)
	}
	dir := scratch()
	jobFile := scratchFile("job", ".json")
	outFile := scratchFile("out", ".json")
	ovFile := scratchFile("ov", ".json")
	data, _ := json.Marshal(jobs)
	if err := os.WriteFile(jobFile, data, 0o644); err != nil {
		return nil, err
	}
	target := filepath.Join(o.repoDir, pkgRel, "zz_verif_replay_test.go")
	ov, _ := json.Marshal(map[string]map[string]string{"Replace": {target: src}})
	if err := os.WriteFile(ovFile, ov, 0o644); err != nil {
		return nil, err
	}
	cmd := exec.Command("go", "test", "-overlay", ovFile, "-vet=off", "-timeout", "120s", "-count=1", "-run", "^TestVerifReplay$", ".")
	cmd.Dir = filepath.Join(o.repoDir, pkgRel)
	cmd.Env = append(os.Environ(), "GOFLAGS=-mod=mod", "GOPROXY=off", "GOSUMDB=off", "GOTOOLCHAIN=local", "VERIF_JOB="+jobFile, "VERIF_OUT="+outFile, "GOCACHE="+filepath.Join(dir, "gocache"))
	if gc := os.Getenv("GOCACHE"); gc != "" {
		cmd.Env = append(cmd.Env, "GOCACHE="+gc)
	} else if home, err := os.UserCacheDir(); err == nil {
		cmd.Env = append(cmd.Env, "GOCACHE="+filepath.Join(home, "go-build"))
	}
	t0 := time.Now()
	out, err := cmd.CombinedOutput()
	_ = t0
	res, rerr := os.ReadFile(outFile)
	if rerr != nil {
		return nil, fmt.Errorf("replay run failed: %v: %s", err, truncate(string(out), 1500))
	}
	var rs []replayRes
	if err := json.Unmarshal(res, &rs); err != nil {
		return nil, err
	}
	return rs, nil
}

// replayLemmaWitness runs the counterexample string of a refuted lemma on the real code.
func (p *Prog) replayLemmaWitness(o checkOpts, lr *LemmaResult) (bool, string) {
	lm := lr.Lemma
	if lm.ReplayKind == "" {
		return false, "no replay recipe for this lemma; the counterexample string is a member of the left language that is not in the right one"
	}
	jobs := []replayJob{{ID: "w", Kind: lm.ReplayKind, Args: map[string]string{lm.ReplayArg: lr.Witness}}}
	for i, a := range lm.Also {
		jobs = append(jobs, replayJob{ID: fmt.Sprintf("also%d", i), Kind: lm.ReplayKind, Args: map[string]string{lm.ReplayArg: a}})
	}
	rs, err := p.runHarness(o, lm.ReplayPkg, jobs)
	if err != nil {
		return false, "replay failed to run: " + err.Error()
	}
	var tried []string
	for _, r := range rs {
		if !r.OK {
			return true, "REPRODUCED on the real code: " + r.Detail
		}
		tried = append(tried, r.Detail)
	}
	if len(rs) > 0 {
		return false, "the oracle accepts the real behaviour on the inputs tried: " + strings.Join(tried, " | ")
	}
	return false, "replay returned no result"
}

func (p *Prog) replayKnown(o checkOpts, f KnownFinding) (bool, string) {
	if f.Replay == nil {
		return true, "no replay recipe recorded"
	}
	args := map[string]string{}
	for k, v := range f.Replay {
		if k != "pkg" && k != "kind" {
			args[k] = v
		}
	}
	rs, err := p.runHarness(o, f.Replay["pkg"], []replayJob{{ID: f.ID, Kind: f.Replay["kind"], Args: args}})
	if err != nil {
		return true, "replay failed to run (" + err.Error() + "); the finding is assumed to persist"
	}
	if len(rs) == 1 {
		return !rs[0].OK, rs[0].Detail
	}
	return true, "replay returned no result"
}


var _ = strings.TrimSpace

// runReplayFile re-runs the recipe stored in a replay file against the current /repo.
func runReplayFile(path string) int {
	data, err := os.ReadFile(path)
	if err != nil {
		fmt.Println("cannot read", path, err)
		return 2
	}
	var rep struct {
		Property   string `json:"property"`
		Obligation string `json:"obligation"`
		Recipe     *struct {
			Pkg    string   `json:"pkg"`
			Kind   string   `json:"kind"`
			Arg    string   `json:"arg"`
			Inputs []string `json:"inputs"`
		} `json:"replay_recipe"`
		Known   map[string]string `json:"known_replay"`
		Harness *struct {
			Pkg  string            `json:"pkg"`
			Kind string            `json:"kind"`
			Args map[string]string `json:"args"`
		} `json:"harness_recipe"`
		Witness *Witness `json:"witness_recipe"`
	}
	if err := json.Unmarshal(data, &rep); err != nil {
		fmt.Println("bad replay file:", err)
		return 2
	}
	defer cleanupScratch()
	o := checkOpts{verifDir: "/verif", repoDir: "/repo"}
	if d := os.Getenv("GOVC_REPO"); d != "" {
		o.repoDir = d
	}
	p := &Prog{}
	if rep.Witness != nil {
		// an input found by the witness search: run it again and re-check the contract clauses
		verif := "/verif"
		if d := os.Getenv("GOVC_VERIF"); d != "" {
			verif = d
		}
		lp, err := loadProg(o.repoDir, filepath.Join(verif, "spec"))
		if err != nil {
			fmt.Println("replay failed to run:", err)
			return 2
		}
		still, detail := lp.replayWitness(o, rep.Witness)
		if still {
			fmt.Println("VIOLATED:", detail)
			return 1
		}
		fmt.Println("holds:", detail)
		return 0
	}
	if rep.Recipe == nil && rep.Harness != nil {
		rs, err := p.runHarness(o, rep.Harness.Pkg, []replayJob{{ID: "harness", Kind: rep.Harness.Kind, Args: rep.Harness.Args}})
		if err != nil || len(rs) != 1 {
			fmt.Println("replay failed to run:", err)
			return 2
		}
		if !rs[0].OK {
			fmt.Println("VIOLATED:", rs[0].Detail)
			return 1
		}
		fmt.Println("holds:", rs[0].Detail)
		return 0
	}
	if rep.Recipe == nil && rep.Known != nil {
		// a witness recorded with an earlier finding about the same obligation
		still, detail := p.replayKnown(o, KnownFinding{ID: "recorded", Replay: rep.Known})
		if strings.HasPrefix(detail, "replay failed to run") || strings.HasPrefix(detail, "replay returned no") {
			fmt.Println("replay failed to run:", detail)
			return 2
		}
		if still {
			fmt.Println("VIOLATED:", detail)
			return 1
		}
		fmt.Println("holds:", detail)
		return 0
	}
	if rep.Recipe == nil {
		fmt.Printf("replay file for %s / %s carries no executable recipe (the failed obligation and the solver output are in the file)\n", rep.Property, rep.Obligation)
		return 0
	}
	var jobs []replayJob
	for i, in := range rep.Recipe.Inputs {
		jobs = append(jobs, replayJob{ID: fmt.Sprint(i), Kind: rep.Recipe.Kind, Args: map[string]string{rep.Recipe.Arg: in}})
	}
	rs, err := p.runHarness(o, rep.Recipe.Pkg, jobs)
	if err != nil {
		fmt.Println("replay failed to run:", err)
		return 2
	}
	code := 0
	for _, r := range rs {
		status := "holds"
		if !r.OK {
			status = "VIOLATED"
			code = 1
		}
		fmt.Printf("%s: %s\n", status, r.Detail)
	}
	return code
}
