package main

type LangDef struct {
	Name string
	Text string
	File string
	Line int
}
type LemmaDef struct {
	Name string
	Text string
	File string
	Line int
}

func parseLangDef(text, file string, line int) (*LangDef, error)   { return &LangDef{Text: text, File: file, Line: line}, nil }
func parseLemmaDef(text, file string, line int) (*LemmaDef, error) { return &LemmaDef{Text: text, File: file, Line: line}, nil }

func (p *Prog) registerCodeRegex(name, pattern string) {
	p.rxMu.Lock()
	defer p.rxMu.Unlock()
	p.codeRegex[name] = pattern
	if _, ok := p.spec.Langs[name]; !ok {
		p.spec.Langs[name] = &LangDef{Name: name, Text: pattern}
	}
}
