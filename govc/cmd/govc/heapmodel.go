package main

// Heap dialect: pointers to structs as references into Boogie-style field maps, maps as map
// objects, sync.Mutex as a ghost "held" bit, allocation with a counter. Used for template.go and
// the top of escape.go (C05, C07, C08).

import (
	"fmt"
	"go/ast"
	"go/token"
	"go/types"
	"sort"
	"strconv"
	"strings"
)

// VSub is a struct-typed field stored by value inside a heap object (ns.esc, ns.mu).
type VSub struct {
	Ref  Term
	Elem string // owner struct type
	Path string // field path inside the owner
	T    types.Type
}

// VMapRef is a map value: a reference to a map object.
type VMapRef struct {
	T    Term
	K    string // "seq" (string keys) or "int" (pointer / integer keys)
	V    types.Type
	Kind string // value kind: "ref:Elem", "bool", "int"
}

// qualifiedElem names a struct type: bare for the repository's packages, prefixed for dependencies.
func qualifiedElem(n *types.Named) string {
	if n.Obj().Pkg() == nil {
		return n.Obj().Name()
	}
	switch n.Obj().Pkg().Path() {
	case "text/template":
		return "TT_" + n.Obj().Name()
	case "text/template/parse":
		return "parse_" + n.Obj().Name()
	case modPath, modPath + "/template":
		return n.Obj().Name()
	}
	return sanitizeIdent(n.Obj().Pkg().Name()) + "_" + n.Obj().Name()
}

func (p *Prog) structByName(elem string) *types.Struct {
	path, name := modPath+"/template", elem
	switch {
	case strings.HasPrefix(elem, "TT_"):
		path, name = "text/template", strings.TrimPrefix(elem, "TT_")
	case strings.HasPrefix(elem, "parse_"):
		path, name = "text/template/parse", strings.TrimPrefix(elem, "parse_")
	}
	try := func(path string) *types.Struct {
		for _, tp := range p.allTypes {
			if tp.Path() != path {
				continue
			}
			if o := tp.Scope().Lookup(name); o != nil {
				if tn, ok := o.(*types.TypeName); ok {
					if st, ok := tn.Type().Underlying().(*types.Struct); ok {
						return st
					}
				}
			}
		}
		return nil
	}
	if st := try(path); st != nil {
		return st
	}
	if path == modPath+"/template" {
		return try(modPath)
	}
	return nil
}

func (p *Prog) heapHasField(elem, name string) bool {
	st := p.structByName(elem)
	if st == nil {
		return false
	}
	for i := 0; i < st.NumFields(); i++ {
		if st.Field(i).Name() == name {
			return true
		}
	}
	return false
}

func (p *Prog) fieldType(elem, path string) types.Type {
	st := p.structByName(elem)
	var t types.Type
	for _, f := range strings.Split(path, ".") {
		if st == nil {
			return nil
		}
		found := false
		for i := 0; i < st.NumFields(); i++ {
			if st.Field(i).Name() == f {
				t = st.Field(i).Type()
				found = true
				if s2, ok := t.Underlying().(*types.Struct); ok {
					st = s2
				} else {
					st = nil
				}
				break
			}
		}
		if !found {
			return nil
		}
	}
	return t
}

// elemName of a pointer-to-named-struct type
// ifaceElemName names an interface type whose values are modelled as references with a dynamic
// type (text/template/parse.Node): "iface:parse_Node".
func ifaceElemName(t types.Type) (string, bool) {
	n, ok := t.(*types.Named)
	if !ok || n.Obj().Pkg() == nil || n.Obj().Pkg().Path() != "text/template/parse" {
		return "", false
	}
	if it, ok := n.Underlying().(*types.Interface); !ok || it.NumMethods() == 0 {
		return "", false
	}
	return "iface:parse_" + n.Obj().Name(), true
}

// refLikeElem: the element name of a pointer-to-struct or modelled interface type.
func refLikeElem(t types.Type) (string, bool) {
	if en, ok := elemName(t); ok {
		return en, true
	}
	return ifaceElemName(t)
}

func elemName(t types.Type) (string, bool) {
	p, ok := t.(*types.Pointer)
	if !ok {
		return "", false
	}
	n, ok := p.Elem().(*types.Named)
	if !ok {
		return "", false
	}
	if _, ok := n.Underlying().(*types.Struct); !ok {
		return "", false
	}
	return qualifiedElem(n), true
}

// ---------------------------------------------------------------------------
// heap state

func (fx *FuncCtx) heapInitial(key, sort string) Term {
	if fx.heapInit == nil {
		fx.heapInit = map[string]Term{}
		fx.heapSort = map[string]string{}
	}
	if t, ok := fx.heapInit[key]; ok {
		return t
	}
	if strings.Contains(sort, "BSeq") {
		fx.useSeq = true
	}
	t := fx.declare(sort, "h_"+sanitizeIdent(key))
	if fx.arrAlloc == nil {
		fx.arrAlloc = map[Term]Term{}
	}
	if a0, ok := fx.heapInit["$alloc"]; ok {
		fx.arrAlloc[t] = a0
	} else {
		fx.pendingInitArr = append(fx.pendingInitArr, t)
	}
	fx.heapInit[key] = t
	fx.heapSort[key] = sort
	return t
}

func (fx *FuncCtx) hget(st *State, key, sort string) Term {
	if st.heap != nil {
		if t, ok := st.heap[key]; ok {
			return t
		}
	}
	return fx.heapInitial(key, sort)
}

// refBound: an upper bound for the references stored in (this version of) a heap array: the value
// of the allocation counter when the version was created. Objects allocated later cannot be
// referenced from it.
func (fx *FuncCtx) refBound(st *State, arr Term) Term {
	if b, ok := fx.arrAlloc[arr]; ok {
		return b
	}
	return fx.allocTerm(st)
}

func (fx *FuncCtx) hset(st *State, key string, t Term) {
	if st.heap == nil {
		st.heap = map[string]Term{}
	}
	if fx.arrAlloc == nil {
		fx.arrAlloc = map[Term]Term{}
	}
	if key != "$alloc" {
		fx.arrAlloc[t] = fx.allocTerm(st)
	}
	st.heap[key] = t
	if fx.heapWritten == nil {
		fx.heapWritten = map[string]bool{}
	}
	fx.heapWritten[key] = true
}

func (fx *FuncCtx) initHeap(st *State) {}

func (fx *FuncCtx) copyHeapForPost(pst, rst *State) {
	pst.heap = rst.heap
}

func arrSort(elem string) string { return "(Array Int " + elem + ")" }

// merge2Heap is called from merge2 through mergeHeaps.
func (fx *FuncCtx) mergeHeaps(n, a, b *State) {
	if a.heap == nil && b.heap == nil {
		return
	}
	keys := map[string]bool{}
	for k := range a.heap {
		keys[k] = true
	}
	for k := range b.heap {
		keys[k] = true
	}
	n.heap = map[string]Term{}
	var ks []string
	for k := range keys {
		ks = append(ks, k)
	}
	sort.Strings(ks)
	for _, k := range ks {
		srt := fx.heapSort[k]
		va, vb := fx.hget(a, k, srt), fx.hget(b, k, srt)
		if va == vb {
			n.heap[k] = va
		} else {
			n.heap[k] = fx.name(srt, "hm", sIte(a.pc, va, vb))
		}
	}
}

// ---------------------------------------------------------------------------
// reads

func (fx *FuncCtx) allocTerm(st *State) Term {
	if st.heap != nil {
		if t, ok := st.heap["$alloc"]; ok {
			return t
		}
	}
	if fx.heapInit == nil {
		fx.heapInit = map[string]Term{}
		fx.heapSort = map[string]string{}
	}
	if t, ok := fx.heapInit["$alloc"]; ok {
		return t
	}
	t := fx.declare(sortInt, "alloc0")
	fx.emit("(assert (<= 1000 " + t + "))")
	fx.heapInit["$alloc"] = t
	if fx.arrAlloc == nil {
		fx.arrAlloc = map[Term]Term{}
	}
	for _, a := range fx.pendingInitArr {
		fx.arrAlloc[a] = t
	}
	fx.pendingInitArr = nil
	fx.heapSort["$alloc"] = sortInt
	return t
}

func (e *Ev) heapRead(r VRef, field string, n ast.Node) Val {
	ft := e.fx.prog.fieldType(r.Elem, field)
	if ft == nil {
		e.unsupp(n, "type %s has no modelled field %s", r.Elem, field)
	}
	e.safety("nil", "nilderef", n.Pos(), sNot(sEq(r.T, "0")), "dereferenced "+r.Elem+" pointer is not nil")
	e.fx.pureGround = e.contract && e.groundTerm(r.T)
	return e.fx.readField(e.st, r.T, r.Elem, field, ft, e.contract)
}

func (fx *FuncCtx) readField(st *State, ref Term, elem, path string, ft types.Type, pure bool) Val {
	// a pure (clause) read of a ground location still learns that stored references are allocated
	ground := pure && fx.pureGround
	fx.pureGround = false
	key := elem + "." + path
	nm := func(sort, hint string, t Term) Term {
		if pure {
			return t
		}
		return fx.name(sort, hint, t)
	}
	if en, ok := elemName(ft); ok {
		arr := fx.hget(st, key, arrSort(sortInt))
		v := nm(sortInt, "rf", sSel(arr, ref))
		if !pure || ground {
			fx.assume(st.pc, sAnd(sLe("0", v), sLe(v, fx.refBound(st, arr))))
		}
		return VRef{v, en}
	}
	if en, ok := ifaceElemName(ft); ok {
		arr := fx.hget(st, key, arrSort(sortInt))
		v := nm(sortInt, "rf", sSel(arr, ref))
		if !pure || ground {
			fx.assume(st.pc, sAnd(sLe("0", v), sLe(v, fx.refBound(st, arr))))
		}
		return VRef{v, en}
	}
	switch u := ft.Underlying().(type) {
	case *types.Basic:
		switch {
		case u.Info()&types.IsBoolean != 0:
			return VBool{nm(sortBool, "rf", sSel(fx.hget(st, key, arrSort(sortBool)), ref))}
		case u.Info()&types.IsInteger != 0:
			return VInt{nm(sortInt, "rf", sSel(fx.hget(st, key, arrSort(sortInt)), ref))}
		case u.Info()&types.IsString != 0:
			b := sSel(fx.hget(st, key+"#b", arrSort(sortArr)), ref)
			o := nm(sortInt, "rfo", sSel(fx.hget(st, key+"#o", arrSort(sortInt)), ref))
			l := nm(sortInt, "rfl", sSel(fx.hget(st, key+"#l", arrSort(sortInt)), ref))
			if !pure {
				fx.assume(st.pc, sAnd(sLe("0", o), sLe("0", l), sLt(l, maxLen)))
			}
			return VStr{B: b, O: o, L: l}
		}
	case *types.Slice:
		if isByteSlice(ft) {
			b := sSel(fx.hget(st, key+"#b", arrSort(sortArr)), ref)
			o := nm(sortInt, "rfo", sSel(fx.hget(st, key+"#o", arrSort(sortInt)), ref))
			l := nm(sortInt, "rfl", sSel(fx.hget(st, key+"#l", arrSort(sortInt)), ref))
			if !pure {
				fx.assume(st.pc, sAnd(sLe("0", o), sLe("0", l), sLt(l, maxLen)))
			}
			return VStr{B: b, O: o, L: l}
		}
		if en, ok := refLikeElem(u.Elem()); ok {
			// a slice of references: its element array and its length
			arr := sSel(fx.hget(st, key+"#refs", arrSort(sortArr)), ref)
			n := nm(sortInt, "rfn", sSel(fx.hget(st, key+"#n", arrSort(sortInt)), ref))
			if !pure {
				fx.assume(st.pc, sAnd(sLe("0", n), sLt(n, maxLen)))
			}
			return VRefs{Arr: arr, N: n, Elem: en}
		}
	case *types.Interface:
		if isErrorLike(ft) {
			return VErr{nm(sortInt, "rf", sSel(fx.hget(st, key, arrSort(sortInt)), ref))}
		}
	case *types.Pointer:
		if isErrorLike(ft) {
			return VErr{nm(sortInt, "rf", sSel(fx.hget(st, key, arrSort(sortInt)), ref))}
		}
	case *types.Map:
		k, kind, ok := mapKinds(u)
		if ok {
			marr := fx.hget(st, key, arrSort(sortInt))
			v := nm(sortInt, "rfm", sSel(marr, ref))
			if ground {
				fx.assume(st.pc, sAnd(sLe("0", v), sLe(v, fx.refBound(st, marr))))
			}
			return VMapRef{T: v, K: k, V: u.Elem(), Kind: kind}
		}
	case *types.Struct:
		return VSub{Ref: ref, Elem: elem, Path: path, T: ft}
	}
	return VOpaque{}
}

func mapKinds(u *types.Map) (k string, kind string, ok bool) {
	switch kt := u.Key().Underlying().(type) {
	case *types.Basic:
		if kt.Info()&types.IsString != 0 {
			k = "seq"
		} else if kt.Info()&types.IsInteger != 0 {
			k = "int"
		}
	case *types.Pointer:
		k = "int"
	}
	if k == "" {
		return "", "", false
	}
	if en, isRef := elemName(u.Elem()); isRef {
		return k, "ref:" + en, true
	}
	if b, isB := u.Elem().Underlying().(*types.Basic); isB {
		if b.Info()&types.IsBoolean != 0 {
			return k, "bool", true
		}
		if b.Info()&types.IsInteger != 0 {
			return k, "int", true
		}
	}
	if n, ok := u.Elem().(*types.Named); ok {
		if _, isStruct := n.Underlying().(*types.Struct); isStruct && n.Obj().Pkg() != nil && strings.HasPrefix(n.Obj().Pkg().Path(), modPath) {
			// struct values are boxed: the map stores a box number, the value is a function of it
			return k, "box:" + qualifiedElem(n), true
		}
	}
	return k, "opaque", true
}

func (e *Ev) subField(s VSub, field string, n ast.Node) Val {
	path := s.Path + "." + field
	ft := e.fx.prog.fieldType(s.Elem, path)
	if ft == nil {
		e.unsupp(n, "no modelled field %s.%s", s.Elem, path)
	}
	e.fx.pureGround = e.contract && e.groundTerm(s.Ref)
	return e.fx.readField(e.st, s.Ref, s.Elem, path, ft, e.contract)
}

// refTermsOf lists the reference terms held directly in a value (references, heap maps and the
// fields of by-value structs).
func refTermsOf(v Val) []Term {
	switch r := v.(type) {
	case VRef:
		return []Term{r.T}
	case VMapRef:
		return []Term{r.T}
	case VSub:
		return []Term{r.Ref}
	case VStruct:
		var out []Term
		for _, n := range r.Names {
			out = append(out, refTermsOf(r.F[n])...)
		}
		return out
	}
	return nil
}

// groundTerm: the term mentions no variable bound by an enclosing quantifier of the clause.
func (e *Ev) groundTerm(t Term) bool {
	for name := range e.bound {
		if strings.Contains(t, name+"!") {
			return false
		}
	}
	return !strings.Contains(t, "!")
}

// ---------------------------------------------------------------------------
// maps

func mapSorts(m VMapRef) (ksort, vsort string) {
	ksort = sortSeq
	if m.K == "int" {
		ksort = sortInt
	}
	vsort = sortInt
	if m.Kind == "bool" {
		vsort = sortBool
	}
	return
}

func mapKeyName(m VMapRef) string { return "map[" + m.K + "]" + m.Kind }

func (e *Ev) mapKeyTerm(m VMapRef, key Val, n ast.Node) Term {
	switch k := key.(type) {
	case VStr:
		if m.K == "seq" {
			e.fx.useSeq = true
			return e.fx.seqOf(k)
		}
	case VSeq:
		if m.K == "seq" {
			return k.T
		}
	case VRef:
		if m.K == "int" {
			return k.T
		}
	case VInt:
		if m.K == "int" {
			return k.T
		}
	}
	e.unsupp(n, "map key of kind %T for a %s-keyed map", key, m.K)
	return ""
}

func (e *Ev) heapMapGet(m VMapRef, key Val, n ast.Node) (val Val, has Term) {
	fx := e.fx
	ks, vs := mapSorts(m)
	kt := e.mapKeyTerm(m, key, n)
	dom := fx.hget(e.st, mapKeyName(m)+"#dom", arrSort("(Array "+ks+" Bool)"))
	vals := fx.hget(e.st, mapKeyName(m)+"#val", arrSort("(Array "+ks+" "+vs+")"))
	has = sSel(sSel(dom, m.T), kt)
	raw := sSel(sSel(vals, m.T), kt)
	switch {
	case strings.HasPrefix(m.Kind, "ref:"):
		t := sIte(has, raw, "0")
		if !e.contract {
			t = fx.name(sortInt, "mg", t)
			fx.assume(e.st.pc, sAnd(sLe("0", t), sLe(t, fx.refBound(e.st, vals))))
		}
		return VRef{t, strings.TrimPrefix(m.Kind, "ref:")}, has
	case m.Kind == "bool":
		return VBool{sAnd(has, raw)}, has
	case m.Kind == "int":
		return VInt{sIte(has, raw, "0")}, has
	}
	if strings.HasPrefix(m.Kind, "box:") && m.V != nil {
		zero := fx.zero(m.V)
		return iteVal(has, e.unbox(m, raw, n), zero), has
	}
	if !e.contract && m.V != nil {
		// the contents of values of this kind are not modelled: some value of the type
		return fx.fresh(m.V, "mv"), has
	}
	return VOpaque{}, has
}

// unbox: the struct value a box number stands for (components are uninterpreted functions of it).
func (e *Ev) unbox(m VMapRef, id Term, n ast.Node) Val {
	return e.namedShape(e.fx.zero(m.V), "box_"+sanitizeIdent(strings.TrimPrefix(m.Kind, "box:")), []string{id}, []string{sortInt}, n)
}

// iteVal: component-wise if-then-else over two values of the same shape (pure).
func iteVal(c Term, a, b Val) Val {
	switch x := a.(type) {
	case VInt:
		return VInt{sIte(c, x.T, b.(VInt).T)}
	case VBool:
		return VBool{sIte(c, x.T, b.(VBool).T)}
	case VErr:
		if y, ok := b.(VErr); ok {
			return VErr{sIte(c, x.T, y.T)}
		}
		return VErr{sIte(c, x.T, "0")}
	case VRef:
		if y, ok := b.(VRef); ok {
			return VRef{sIte(c, x.T, y.T), x.Elem}
		}
		return VRef{sIte(c, x.T, "0"), x.Elem}
	case VStr:
		y := b.(VStr)
		return VStr{B: sIte(c, x.B, y.B), O: sIte(c, x.O, y.O), L: sIte(c, x.L, y.L)}
	case VStrs:
		y := b.(VStrs)
		return VStrs{B: sIte(c, x.B, y.B), O: sIte(c, x.O, y.O), L: sIte(c, x.L, y.L), N: sIte(c, x.N, y.N), Wrap: x.Wrap, WrapField: x.WrapField}
	case VStruct:
		y := b.(VStruct)
		out := VStruct{TName: x.TName, Names: x.Names, F: map[string]Val{}}
		for _, f := range x.Names {
			out.F[f] = iteVal(c, x.F[f], y.F[f])
		}
		return out
	}
	return a
}

func (e *Ev) mapRefLookup(m VMapRef, key Val, commaOk bool, n ast.Node) Val {
	v, has := e.heapMapGet(m, key, n)
	if commaOk {
		return VTuple{v, VBool{has}}
	}
	return v
}

func (e *Ev) heapMapLookup(m VHeapMap, key Val, commaOk bool, n ast.Node) Val {
	e.unsupp(n, "VHeapMap is unused")
	return nil
}

func (x *Exec) heapMapStore(l *ast.IndexExpr, m VHeapMap, v Val, st *State) {
	unsupp(l.Pos(), x.fx.prog.fset, "VHeapMap is unused")
}

func (x *Exec) mapRefStore(l *ast.IndexExpr, m VMapRef, v Val, st *State) {
	fx := x.fx
	e := x.ev(st)
	ks, vs := mapSorts(m)
	kt := e.mapKeyTerm(m, e.ev(l.Index), l)
	e.safety("nil", "nilmap", l.Pos(), sNot(sEq(m.T, "0")), "assignment to an entry of a map that is not nil")
	var vt Term
	switch vv := v.(type) {
	case VRef:
		vt = vv.T
	case VBool:
		vt = vv.T
	case VInt:
		vt = vv.T
	case VNil:
		vt = "0"
	default:
		switch {
		case m.Kind == "opaque":
			vt = "0"
		case strings.HasPrefix(m.Kind, "box:"):
			// a fresh box number (from the allocation counter, hence different from every other one)
			// that stands for exactly this value
			vt = e.allocRef()
			fx.assume(st.pc, e.identicalVal(e.unbox(m, vt, l), v, l))
		default:
			unsupp(l.Pos(), fx.prog.fset, "map value of kind %T", v)
		}
	}
	dk, vk := mapKeyName(m)+"#dom", mapKeyName(m)+"#val"
	dsort, vsort := arrSort("(Array "+ks+" Bool)"), arrSort("(Array "+ks+" "+vs+")")
	dom := fx.hget(st, dk, dsort)
	vals := fx.hget(st, vk, vsort)
	fx.hset(st, dk, fx.name(dsort, "hd", fmt.Sprintf("(store %s %s (store (select %s %s) %s true))", dom, m.T, dom, m.T, kt)))
	if m.Kind != "opaque" {
		fx.hset(st, vk, fx.name(vsort, "hv", fmt.Sprintf("(store %s %s (store (select %s %s) %s %s))", vals, m.T, vals, m.T, kt, vt)))
	}
}

func (fx *FuncCtx) emptyHeapMap(t *types.Map) Val {
	panic(unsupported{"make(map) needs a state (handled in evBuiltin)"})
}

func (e *Ev) makeMap(u *types.Map, n ast.Node) Val {
	fx := e.fx
	k, kind, ok := mapKinds(u)
	if !ok {
		e.unsupp(n, "make of %s", u)
	}
	m := VMapRef{K: k, V: u.Elem(), Kind: kind}
	r := e.allocRef()
	m.T = r
	ks, _ := mapSorts(m)
	dk := mapKeyName(m) + "#dom"
	dsort := arrSort("(Array " + ks + " Bool)")
	dom := fx.hget(e.st, dk, dsort)
	fx.hset(e.st, dk, fx.name(dsort, "hd", fmt.Sprintf("(store %s %s ((as const (Array %s Bool)) false))", dom, r, ks)))
	return m
}

func (fx *FuncCtx) heapMapLen(m VHeapMap) Term { return "0" }

func (e *Ev) allocRef() Term {
	fx := e.fx
	a := fx.allocTerm(e.st)
	r := fx.name(sortInt, "new", sAdd(a, "1"))
	if e.st.heap == nil {
		e.st.heap = map[string]Term{}
	}
	e.st.heap["$alloc"] = r
	return r
}

// ---------------------------------------------------------------------------
// writes

func (x *Exec) heapWrite(r VRef, field string, v Val, st *State, n ast.Node) {
	fx := x.fx
	ft := fx.prog.fieldType(r.Elem, field)
	if ft == nil {
		unsupp(n.Pos(), fx.prog.fset, "type %s has no modelled field %s", r.Elem, field)
	}
	e := x.ev(st)
	e.safety("nil", "nilderef", n.Pos(), sNot(sEq(r.T, "0")), "assigned "+r.Elem+" pointer is not nil")
	fx.writeField(st, r.T, r.Elem, field, ft, v, n)
}

func (fx *FuncCtx) writeField(st *State, ref Term, elem, path string, ft types.Type, v Val, n ast.Node) {
	key := elem + "." + path
	put := func(k, elemSort string, t Term) {
		srt := arrSort(elemSort)
		fx.hset(st, k, fx.name(srt, "hw", fmt.Sprintf("(store %s %s %s)", fx.hget(st, k, srt), ref, t)))
	}
	switch vv := v.(type) {
	case VRef:
		put(key, sortInt, vv.T)
	case VNil:
		if _, isMap := ft.Underlying().(*types.Map); isMap {
			put(key, sortInt, "0")
			return
		}
		put(key, sortInt, "0")
	case VErr:
		put(key, sortInt, vv.T)
	case VBool:
		put(key, sortBool, vv.T)
	case VInt:
		put(key, sortInt, vv.T)
	case VMapRef:
		put(key, sortInt, vv.T)
	case VStr:
		put(key+"#b", sortArr, vv.B)
		put(key+"#o", sortInt, vv.O)
		put(key+"#l", sortInt, vv.L)
	case VRefs:
		put(key+"#refs", sortArr, vv.Arr)
		put(key+"#n", sortInt, vv.N)
	case VOpaque:
		// unmodelled field contents
	case VStruct:
		for _, name := range vv.Names {
			if ft2 := fx.prog.fieldType(elem, path+"."+name); ft2 != nil {
				fx.writeField(st, ref, elem, path+"."+name, ft2, vv.F[name], n)
			}
		}
	case VSub:
		// struct copy of a by-value sub-object: copy every modelled field below it
		fx.copySub(st, vv, ref, elem, path, n)
	default:
		unsupp(n.Pos(), fx.prog.fset, "heap write of %T into %s", v, key)
	}
}

func (fx *FuncCtx) copySub(st *State, src VSub, ref Term, elem, path string, n ast.Node) {
	stt, ok := src.T.Underlying().(*types.Struct)
	if !ok {
		return
	}
	for i := 0; i < stt.NumFields(); i++ {
		f := stt.Field(i)
		v := fx.readField(st, src.Ref, src.Elem, src.Path+"."+f.Name(), f.Type(), false)
		fx.writeField(st, ref, elem, path+"."+f.Name(), f.Type(), v, n)
	}
}

func (x *Exec) starAssign(l *ast.StarExpr, v Val, st *State) {
	// *p = *q : copy every field
	fx := x.fx
	e := x.ev(st)
	dst, ok := e.ev(l.X).(VRef)
	if !ok {
		unsupp(l.Pos(), fx.prog.fset, "assignment through a pointer that is not a struct reference")
	}
	src, ok := v.(VDeref)
	if !ok {
		unsupp(l.Pos(), fx.prog.fset, "assignment through a pointer needs a dereferenced struct on the right")
	}
	e.safety("nil", "nilderef", l.Pos(), sAnd(sNot(sEq(dst.T, "0")), sNot(sEq(src.Ref.T, "0"))), "pointers in a struct copy are not nil")
	stt := fx.prog.structByName(dst.Elem)
	for i := 0; i < stt.NumFields(); i++ {
		f := stt.Field(i)
		fv := fx.readField(st, src.Ref.T, src.Ref.Elem, f.Name(), f.Type(), false)
		fx.writeField(st, dst.T, dst.Elem, f.Name(), f.Type(), fv, l)
	}
}

// VDeref is *p used as a value (only as the source of a struct copy).
type VDeref struct{ Ref VRef }

func (e *Ev) evStar(x *ast.StarExpr) Val {
	r, ok := e.ev(x.X).(VRef)
	if !ok {
		e.unsupp(x, "dereference of a non-reference")
	}
	return VDeref{r}
}

// &T{...} and &x.field
func (e *Ev) evAddr(x *ast.UnaryExpr) Val {
	fx := e.fx
	switch y := unparen(x.X).(type) {
	case *ast.CompositeLit:
		t := e.typeOf(y)
		n, ok := t.(*types.Named)
		if !ok {
			e.unsupp(x, "address of a literal of type %s", t)
		}
		stt, ok := n.Underlying().(*types.Struct)
		if !ok {
			e.unsupp(x, "address of a non-struct literal")
		}
		r := e.allocRef()
		elem := qualifiedElem(n)
		// all fields zero first
		given := map[string]Val{}
		for i, el := range y.Elts {
			if kv, ok := el.(*ast.KeyValueExpr); ok {
				given[kv.Key.(*ast.Ident).Name] = e.ev(kv.Value)
			} else {
				given[stt.Field(i).Name()] = e.ev(el)
			}
		}
		for i := 0; i < stt.NumFields(); i++ {
			f := stt.Field(i)
			v, ok := given[f.Name()]
			if !ok {
				v = fx.heapZero(f.Type())
			}
			if _, isNil := v.(VNil); isNil {
				v = fx.heapZero(f.Type())
			}
			fx.writeZeroOr(e.st, r, elem, f.Name(), f.Type(), v, x)
		}
		return VRef{r, elem}
	case *ast.SelectorExpr:
		// &n.BranchNode : address of a by-value sub-object
		base := e.ev(y.X)
		if br, ok := base.(VRef); ok {
			ft := fx.prog.fieldType(br.Elem, y.Sel.Name)
			if ft != nil {
				if _, ok := ft.Underlying().(*types.Struct); ok {
					return VSub{Ref: br.T, Elem: br.Elem, Path: y.Sel.Name, T: ft}
				}
			}
		}
	}
	e.unsupp(x, "address-of is outside the modelled subset")
	return nil
}

func (fx *FuncCtx) heapZero(t types.Type) Val {
	if _, ok := elemName(t); ok {
		return VRef{"0", ""}
	}
	switch u := t.Underlying().(type) {
	case *types.Basic:
		switch {
		case u.Info()&types.IsBoolean != 0:
			return VBool{"false"}
		case u.Info()&types.IsInteger != 0:
			return VInt{"0"}
		case u.Info()&types.IsString != 0:
			return fx.strLit("")
		}
	case *types.Map:
		return VMapRef{T: "0"}
	case *types.Interface, *types.Pointer:
		if isErrorLike(t) {
			return VErr{"0"}
		}
		return VRef{"0", ""}
	case *types.Struct:
		return VOpaque{}
	}
	return VOpaque{}
}

func (fx *FuncCtx) writeZeroOr(st *State, ref Term, elem, field string, ft types.Type, v Val, n ast.Node) {
	if _, isStruct := ft.Underlying().(*types.Struct); isStruct {
		if sv, ok := v.(VSub); ok {
			fx.copySub(st, sv, ref, elem, field, n)
			return
		}
		if sv, ok := v.(VStructLit); ok {
			for name, fv := range sv.F {
				fx.writeField(st, ref, elem, field+"."+name, fx.prog.fieldType(elem, field+"."+name), fv, n)
			}
			return
		}
		if n, ok := ft.(*types.Named); ok && n.Obj().Pkg() != nil && n.Obj().Pkg().Path() == "sync" && n.Obj().Name() == "Mutex" {
			key := elem + "." + field + ".held"
			srt := arrSort(sortBool)
			fx.hset(st, key, fx.name(srt, "hl", fmt.Sprintf("(store %s %s false)", fx.hget(st, key, srt), ref)))
			return
		}
		// zero sub-object: zero its modelled scalar fields
		stt := ft.Underlying().(*types.Struct)
		for i := 0; i < stt.NumFields(); i++ {
			f := stt.Field(i)
			fx.writeZeroOr(st, ref, elem, field+"."+f.Name(), f.Type(), fx.heapZero(f.Type()), n)
		}
		return
	}
	fx.writeField(st, ref, elem, field, ft, v, n)
}

// VStructLit is a struct value built by a call such as makeEscaper (fields by name).
type VStructLit struct{ F map[string]Val }

// ---------------------------------------------------------------------------
// sync.Mutex as a ghost bit, defer

func (e *Ev) mutexOp(s VSub, op string, n ast.Node) {
	fx := e.fx
	key := s.Elem + "." + s.Path + ".held"
	srt := arrSort(sortBool)
	held := sSel(fx.hget(e.st, key, srt), s.Ref)
	switch op {
	case "Lock":
		e.safety("lock", "lock", n.Pos(), sNot(held), "the mutex is not already held by this call (no self-deadlock)")
		fx.hset(e.st, key, fx.name(srt, "hl", fmt.Sprintf("(store %s %s true)", fx.hget(e.st, key, srt), s.Ref)))
	case "Unlock":
		e.safety("lock", "unlock", n.Pos(), held, "Unlock of a mutex that is held")
		fx.hset(e.st, key, fx.name(srt, "hl", fmt.Sprintf("(store %s %s false)", fx.hget(e.st, key, srt), s.Ref)))
	}
	fx.trusted["sync.Mutex is modelled sequentially as a ghost 'held' bit (Lock requires not held, Unlock requires held); no interleavings are considered"] = true
}

func (x *Exec) deferStmt(s *ast.DeferStmt, st *State) *Flow {
	// only "defer <expr>.Unlock()" is supported
	sel, ok := unparen(s.Call.Fun).(*ast.SelectorExpr)
	if !ok || sel.Sel.Name != "Unlock" || len(s.Call.Args) != 0 {
		unsupp(s.Pos(), x.fx.prog.fset, "defer other than mu.Unlock() is outside the modelled subset")
	}
	// the receiver of a deferred method call is evaluated when the defer statement executes
	mu, ok := x.ev(st).ev(sel.X).(VSub)
	if !ok {
		unsupp(s.Pos(), x.fx.prog.fset, "deferred Unlock of something that is not a mutex field")
	}
	x.deferredMu = append(x.deferredMu, deferredUnlock{mu, s.Call})
	return &Flow{fall: st}
}

type deferredUnlock struct {
	mu   VSub
	call *ast.CallExpr
}

func (x *Exec) runDeferred(st *State) {
	for i := len(x.deferredMu) - 1; i >= 0; i-- {
		x.ev(st).mutexOp(x.deferredMu[i].mu, "Unlock", x.deferredMu[i].call)
	}
}

// ---------------------------------------------------------------------------
// contracts: modifies, ghost functions

func (e *Ev) havocHeapFor(con *Contract) {
	fx := e.fx
	for _, key := range strings.Fields(con.Options["modifies"]) {
		srt := fx.prog.heapKeySort(key)
		if srt == "" {
			panic(unsupported{"modifies clause names an unknown heap location " + key})
		}
		fx.heapInitial(key, srt) // make sure the sort is recorded
		fresh := fx.declare(srt, "hv_"+sanitizeIdent(key))
		fx.hset(e.st, key, fresh)
	}
	if con.Options["allocates"] == "true" {
		a := fx.allocTerm(e.st)
		na := fx.declare(sortInt, "alloc")
		fx.emit("(assert (<= " + a + " " + na + "))")
		if e.st.heap == nil {
			e.st.heap = map[string]Term{}
		}
		e.st.heap["$alloc"] = na
	}
}

// heapKeySort gives the SMT sort of a heap location name.
func (p *Prog) heapKeySort(key string) string {
	if key == "$written" {
		return sortBool
	}
	if strings.HasPrefix(key, "map[") {
		k := sortSeq
		if strings.HasPrefix(key, "map[int]") {
			k = sortInt
		}
		if strings.HasSuffix(key, "#dom") {
			return arrSort("(Array " + k + " Bool)")
		}
		v := sortInt
		if strings.Contains(key, "]bool#") {
			v = sortBool
		}
		return arrSort("(Array " + k + " " + v + ")")
	}
	if strings.HasSuffix(key, ".held") {
		return arrSort(sortBool)
	}
	base := key
	suffix := ""
	if i := strings.Index(key, "#"); i >= 0 {
		base, suffix = key[:i], key[i:]
	}
	i := strings.Index(base, ".")
	if i < 0 {
		return ""
	}
	ft := p.fieldType(base[:i], base[i+1:])
	if ft == nil {
		return ""
	}
	switch suffix {
	case "#b", "#refs":
		return arrSort(sortArr)
	case "#o", "#l", "#n":
		return arrSort(sortInt)
	}
	if b, ok := ft.Underlying().(*types.Basic); ok && b.Info()&types.IsBoolean != 0 {
		return arrSort(sortBool)
	}
	return arrSort(sortInt)
}

func (e *Ev) evHeapGhost(name string, x *ast.CallExpr) (Val, bool) {
	switch name {
	case "haskeym":
		m, ok := e.ev(x.Args[0]).(VMapRef)
		if !ok {
			e.unsupp(x, "haskeym needs a map")
		}
		_, has := e.heapMapGet(m, e.ev(x.Args[1]), x)
		return VBool{has}, true
	case "held":
		s, ok := e.ev(x.Args[0]).(VSub)
		if !ok {
			e.unsupp(x, "held needs a mutex")
		}
		key := s.Elem + "." + s.Path + ".held"
		return VBool{sSel(e.fx.hget(e.st, key, arrSort(sortBool)), s.Ref)}, true
	case "fresh":
		// fresh(p): p was allocated by this call
		var rt Term
		switch r := e.ev(x.Args[0]).(type) {
		case VRef:
			rt = r.T
		case VInt:
			rt = r.T
		case VMapRef:
			rt = r.T
		default:
			e.unsupp(x, "fresh needs a reference")
		}
		if e.oldEv == nil {
			e.unsupp(x, "fresh needs a post-state")
		}
		return VBool{sLt(e.fx.allocTerm(e.oldEv.st), rt)}, true
	case "allocated":
		var rt Term
		switch r := e.ev(x.Args[0]).(type) {
		case VRef:
			rt = r.T
		case VInt:
			rt = r.T
		default:
			e.unsupp(x, "allocated needs a reference")
		}
		return VBool{sAnd(sLe("0", rt), sLe(rt, e.fx.allocTerm(e.st)))}, true
	case "nochange":
		// nochange(): every heap location this contract may modify is as it was at entry
		if e.oldEv == nil {
			e.unsupp(x, "nochange needs a post-state")
		}
		var cs []Term
		for _, key := range e.modKeys {
			if key == "$alloc" {
				continue
			}
			srt := e.fx.prog.heapKeySort(key)
			cur := e.fx.hget(e.st, key, srt)
			old := e.fx.hget(e.oldEv.st, key, srt)
			cs = append(cs, sEq(cur, old))
		}
		return VBool{sAnd(cs...)}, true
	case "onlyobjects":
		// onlyobjects(a, b, ...): of the heap locations this contract may modify, only the entries of
		// the listed objects changed
		if e.oldEv == nil {
			e.unsupp(x, "onlyobjects needs a post-state")
		}
		var refs []Term
		keys := e.modKeys
		args := x.Args
		if len(args) > 0 {
			// onlyobjects("KEY KEY ...", a, b): the statement restricted to the named locations
			if bl, ok := args[0].(*ast.BasicLit); ok && bl.Kind == token.STRING {
				ks, _ := strconv.Unquote(bl.Value)
				keys = strings.Fields(ks)
				args = args[1:]
			}
		}
		for _, a := range args {
			switch r := e.ev(a).(type) {
			case VRef:
				refs = append(refs, r.T)
			case VMapRef:
				refs = append(refs, r.T)
			default:
				e.unsupp(x, "onlyobjects needs references")
			}
		}
		var cs []Term
		for _, key := range keys {
			if key == "$written" || key == "$alloc" {
				continue
			}
			srt := e.fx.prog.heapKeySort(key)
			if srt == "" {
				e.unsupp(x, "onlyobjects names an unknown heap location %s", key)
			}
			cur := e.fx.hget(e.st, key, srt)
			old := e.fx.hget(e.oldEv.st, key, srt)
			if cur == old {
				continue
			}
			quantSeq++
			p := fmt.Sprintf("p!%d", quantSeq)
			var ne []Term
			for _, r := range refs {
				ne = append(ne, sNot(sEq(p, r)))
			}
			// objects that existed at entry only: what the call allocated is not "another object changed"
			ne = append(ne, sLe(p, e.fx.allocTerm(e.oldEv.st)))
			pat := ""
			if isAtom(cur) {
				pat = fmt.Sprintf(" :pattern ((select %s %s))", cur, p)
			}
			if pat != "" {
				cs = append(cs, fmt.Sprintf("(forall ((%s Int)) (! (=> %s (= (select %s %s) (select %s %s)))%s))", p, sAnd(ne...), cur, p, old, p, pat))
			} else {
				cs = append(cs, fmt.Sprintf("(forall ((%s Int)) (=> %s (= (select %s %s) (select %s %s))))", p, sAnd(ne...), cur, p, old, p))
			}
		}
		return VBool{sAnd(cs...)}, true
	case "onlyfresh":
		// onlyfresh(): no field, map entry or map domain of an object that existed when the function
		// was entered differs from its entry value (mutex state excluded)
		if e.oldEv == nil {
			e.unsupp(x, "onlyfresh needs an entry state")
		}
		var cs []Term
		var keys []string
		if len(x.Args) == 1 {
			// onlyfresh("KEY KEY ..."): the statement restricted to the named locations
			bl, ok := x.Args[0].(*ast.BasicLit)
			if !ok || bl.Kind != token.STRING {
				e.unsupp(x, "onlyfresh takes a string of location names")
			}
			ks, _ := strconv.Unquote(bl.Value)
			for _, k := range strings.Fields(ks) {
				srt := e.fx.prog.heapKeySort(k)
				if srt == "" {
					e.unsupp(x, "onlyfresh names an unknown heap location %s", k)
				}
				e.fx.heapInitial(k, srt)
				keys = append(keys, k)
			}
		} else {
			for key := range e.fx.heapSort {
				keys = append(keys, key)
			}
		}
		sort.Strings(keys)
		a0 := e.fx.allocTerm(e.oldEv.st)
		for _, key := range keys {
			if key == "$written" || key == "$alloc" || strings.HasSuffix(key, ".held") {
				continue
			}
			srt := e.fx.heapSort[key]
			if !strings.HasPrefix(srt, "(Array Int ") {
				continue
			}
			cur := e.fx.hget(e.st, key, srt)
			old := e.fx.hget(e.oldEv.st, key, srt)
			if cur == old {
				continue
			}
			quantSeq++
			p := fmt.Sprintf("p!%d", quantSeq)
			cs = append(cs, fmt.Sprintf("(forall ((%s Int)) (! (=> (<= %s %s) (= (select %s %s) (select %s %s))) :pattern ((select %s %s))))", p, p, a0, cur, p, old, p, cur, p))
		}
		return VBool{sAnd(cs...)}, true
	case "dyntypeis":
		// dyntypeis(x, "Elem"): the modelled interface value x holds a *Elem
		if len(x.Args) != 2 {
			e.unsupp(x, "dyntypeis(x, \"Elem\")")
		}
		bl, ok := x.Args[1].(*ast.BasicLit)
		if !ok || bl.Kind != token.STRING {
			e.unsupp(x, "dyntypeis needs the element type as a string literal")
		}
		en, _ := strconv.Unquote(bl.Value)
		if e.fx.prog.structByName(en) == nil {
			e.unsupp(x, "dyntypeis names an unknown struct type %s", en)
		}
		rv, ok := e.ev(x.Args[0]).(VRef)
		if !ok {
			e.unsupp(x, "dyntypeis needs an interface value")
		}
		e.fx.specUsed["dyntype"] = true
		return VBool{sAnd(sNot(sEq(rv.T, "0")), sEq("(dyntype "+rv.T+")", fmt.Sprintf("%d", typeID(en))))}, true
	case "asref":
		// asref(x, "Elem"): the integer x read as a reference to an Elem object
		if len(x.Args) != 2 {
			e.unsupp(x, "asref(x, \"Elem\")")
		}
		bl, ok := x.Args[1].(*ast.BasicLit)
		if !ok || bl.Kind != token.STRING {
			e.unsupp(x, "asref needs the element type as a string literal")
		}
		en, _ := strconv.Unquote(bl.Value)
		if e.fx.prog.structByName(en) == nil {
			e.unsupp(x, "asref names an unknown struct type %s", en)
		}
		switch v := e.ev(x.Args[0]).(type) {
		case VInt:
			return VRef{v.T, en}, true
		case VRef:
			return VRef{v.T, en}, true
		}
		e.unsupp(x, "asref needs an integer")
	case "written":
		return VBool{e.fx.hgetScalar(e.st, "$written", sortBool)}, true
	}
	return nil, false
}

// scalar ghost heap variables ($written)
func (fx *FuncCtx) hgetScalar(st *State, key, sort string) Term {
	if st.heap != nil {
		if t, ok := st.heap[key]; ok {
			return t
		}
	}
	return fx.heapInitial(key, sort)
}

func (x *Exec) havocHeapLoop(ls *loopSpec, head *State) map[string]bool {
	// heap locations the loop body may write are havocked at the loop head. They are found
	// syntactically: field assignments (every heap location whose last path component has the
	// field's name, in any struct type of the loaded packages), composite literals (every field of
	// the struct type), map stores, deletes and makes (the location families of that map kind),
	// and the modifies clauses of the callees. loop() checks afterwards that the body wrote
	// nothing else.
	fx := x.fx
	if head.heap == nil {
		head.heap = map[string]Term{}
	}
	written := map[string]bool{}
	allocs := false
	mapKind := func(t types.Type) {
		if t == nil {
			return
		}
		if u, ok := t.Underlying().(*types.Map); ok {
			if k, kind, ok := mapKinds(u); ok {
				nm := mapKeyName(VMapRef{K: k, Kind: kind})
				written["="+nm+"#dom"] = true
				written["="+nm+"#val"] = true
			}
		}
	}
	for _, n := range ls.modNodes {
		if n == nil {
			continue
		}
		ast.Inspect(n, func(n ast.Node) bool {
			switch s := n.(type) {
			case *ast.UnaryExpr:
				// &T{...} allocates a T and initialises its fields
				if cl, ok := unparen(s.X).(*ast.CompositeLit); ok && s.Op == token.AND {
					allocs = true
					if tv, ok := x.info.Types[cl]; ok {
						if n, ok := tv.Type.(*types.Named); ok {
							if _, ok := n.Underlying().(*types.Struct); ok {
								for _, k := range fx.prog.heapKeysOfElem(qualifiedElem(n)) {
									written["="+k] = true
								}
							}
						}
					}
				}
			case *ast.CompositeLit:
				if tv, ok := x.info.Types[s]; ok {
					if _, isMap := tv.Type.Underlying().(*types.Map); isMap {
						allocs = true
						mapKind(tv.Type)
					}
				}
			case *ast.AssignStmt:
				for _, l := range s.Lhs {
					if sel, ok := unparen(l).(*ast.SelectorExpr); ok && x.throughPointer(sel.X) {
						for _, k := range fx.prog.heapKeysOfSelector(x.info.TypeOf(sel.X), sel.Sel.Name) {
							written["="+k] = true
						}
					}
					if ix, ok := unparen(l).(*ast.IndexExpr); ok {
						mapKind(x.info.TypeOf(ix.X))
					}
				}
			case *ast.IncDecStmt:
				if sel, ok := unparen(s.X).(*ast.SelectorExpr); ok && x.throughPointer(sel.X) {
					for _, k := range fx.prog.heapKeysOfSelector(x.info.TypeOf(sel.X), sel.Sel.Name) {
						written["="+k] = true
					}
				}
			case *ast.CallExpr:
				if id, ok := unparen(s.Fun).(*ast.Ident); ok {
					switch id.Name {
					case "make", "new":
						allocs = true
						mapKind(x.info.TypeOf(s))
					case "delete":
						if len(s.Args) == 2 {
							mapKind(x.info.TypeOf(s.Args[0]))
						}
					}
				}
				if fn := calleeOf(s, x.info); fn != nil {
					if con := fx.prog.spec.Contracts[funcKey(fn)]; con != nil {
						for _, k := range strings.Fields(con.Options["modifies"]) {
							written["="+k] = true
						}
						if con.Options["allocates"] == "true" {
							allocs = true
						}
						if con.Options["locks"] != "" {
							for _, k := range fx.prog.heapKeysOfField("held") {
								written["="+k] = true
							}
						}
					}
					if fn.Pkg() != nil && fn.Pkg().Path() == "sync" {
						for k := range fx.heapSort {
							if strings.HasSuffix(k, ".held") {
								written["="+k] = true
							}
						}
					}
				}
			}
			return true
		})
	}
	if allocs {
		a := fx.allocTerm(head)
		na := fx.declare(sortInt, "alloc")
		fx.emit("(assert (<= " + a + " " + na + "))")
		head.heap["$alloc"] = na
	}
	var keys []string
	for w := range written {
		if strings.HasPrefix(w, "=") && w != "=$alloc" {
			keys = append(keys, w[1:])
		}
	}
	sort.Strings(keys)
	havocked := map[string]bool{}
	for _, key := range keys {
		srt := fx.heapSort[key]
		if srt == "" {
			srt = fx.prog.heapKeySort(key)
			if srt == "" {
				continue
			}
			fx.heapInitial(key, srt)
		}
		if key == "$written" {
			head.heap[key] = fx.declare(srt, "hl_written")
			havocked[key] = true
			continue
		}
		fx.hset(head, key, fx.declare(srt, "hl_"+sanitizeIdent(key)))
		havocked[key] = true
	}
	return havocked
}

// throughPointer reports whether a selector base reaches its object through a pointer (then a
// field write lands in the heap; otherwise it updates a struct-valued variable).
func (x *Exec) throughPointer(e ast.Expr) bool {
	for {
		e = unparen(e)
		if t := x.info.TypeOf(e); t != nil {
			if _, ok := t.Underlying().(*types.Pointer); ok {
				return true
			}
		}
		switch v := e.(type) {
		case *ast.SelectorExpr:
			e = v.X
		case *ast.StarExpr, *ast.IndexExpr, *ast.CallExpr:
			return true
		default:
			return false
		}
	}
}

// heapKeysOfField lists the heap locations (struct type, field path, and the three parts of a
// string-valued field) whose last path component is the given field name, over the struct types
// of the repository's packages, text/template and text/template/parse.
func (p *Prog) heapKeysOfField(field string) []string {
	p.heapKeyOnce.Do(p.buildHeapKeyIndex)
	return p.heapKeysByField[field]
}

// heapKeysOfSelector: the locations a write to x.field may touch, given the static type of x: the
// field of that struct type, wherever objects of the type live (on their own or by value inside
// another struct). Falls back to every field of that name when the type is not a named struct.
func (p *Prog) heapKeysOfSelector(t types.Type, field string) []string {
	p.heapKeyOnce.Do(p.buildHeapKeyIndex)
	if t != nil {
		if pt, ok := t.Underlying().(*types.Pointer); ok {
			t = pt.Elem()
		}
		if n, ok := t.(*types.Named); ok {
			if _, ok := n.Underlying().(*types.Struct); ok {
				if ks, ok := p.heapKeysByField[qualifiedElem(n)+"/"+field]; ok {
					return ks
				}
				// promoted field of an embedded struct: fall through
			}
		}
	}
	return p.heapKeysByField[field]
}

func (p *Prog) heapKeysOfElem(elem string) []string {
	p.heapKeyOnce.Do(p.buildHeapKeyIndex)
	return p.heapKeysByElem[elem]
}

func (p *Prog) buildHeapKeyIndex() {
	p.heapKeysByField = map[string][]string{}
	p.heapKeysByElem = map[string][]string{}
	seen := map[string]bool{}
	add := func(elem, path string, t types.Type, container string) {
		last := path
		if k := strings.LastIndex(path, "."); k >= 0 {
			last = path[k+1:]
		}
		var ks []string
		base := elem + "." + path
		isStr := false
		switch u := t.Underlying().(type) {
		case *types.Basic:
			isStr = u.Info()&types.IsString != 0
		case *types.Slice:
			isStr = isByteSlice(t)
		}
		if isStr {
			ks = []string{base + "#b", base + "#o", base + "#l"}
		} else if sl, ok := t.Underlying().(*types.Slice); ok {
			if _, ok := refLikeElem(sl.Elem()); ok {
				ks = []string{base + "#refs", base + "#n"}
			} else {
				ks = []string{base}
			}
		} else {
			ks = []string{base}
		}
		if n, ok := t.(*types.Named); ok && n.Obj().Pkg() != nil && n.Obj().Pkg().Path() == "sync" {
			ks = []string{base + ".held"}
			last = "held"
		}
		for _, k := range ks {
			if seen[k] || p.heapKeySort(k) == "" {
				continue
			}
			seen[k] = true
			p.heapKeysByField[last] = append(p.heapKeysByField[last], k)
			p.heapKeysByField[container+"/"+last] = append(p.heapKeysByField[container+"/"+last], k)
			p.heapKeysByElem[elem] = append(p.heapKeysByElem[elem], k)
		}
	}
	var walk func(elem, prefix string, st *types.Struct, depth int, container string)
	walk = func(elem, prefix string, st *types.Struct, depth int, container string) {
		for i := 0; i < st.NumFields(); i++ {
			f := st.Field(i)
			path := f.Name()
			if prefix != "" {
				path = prefix + "." + f.Name()
			}
			add(elem, path, f.Type(), container)
			if sub, ok := f.Type().Underlying().(*types.Struct); ok && depth < 3 {
				n, isN := f.Type().(*types.Named)
				if !isN || n.Obj().Pkg() == nil || n.Obj().Pkg().Path() != "sync" {
					c := container + "." + f.Name()
					if isN {
						c = qualifiedElem(n)
					}
					walk(elem, path, sub, depth+1, c)
				}
			}
		}
	}
	for _, tp := range p.allTypes {
		switch tp.Path() {
		case modPath, modPath + "/template", "text/template", "text/template/parse":
		default:
			continue
		}
		for _, name := range tp.Scope().Names() {
			tn, ok := tp.Scope().Lookup(name).(*types.TypeName)
			if !ok {
				continue
			}
			n, ok := tn.Type().(*types.Named)
			if !ok {
				continue
			}
			st, ok := n.Underlying().(*types.Struct)
			if !ok {
				continue
			}
			walk(qualifiedElem(n), "", st, 0, qualifiedElem(n))
		}
	}
}

func calleeOf(x *ast.CallExpr, info *types.Info) *types.Func {
	switch f := unparen(x.Fun).(type) {
	case *ast.Ident:
		if fn, ok := info.Uses[f].(*types.Func); ok {
			return fn
		}
	case *ast.SelectorExpr:
		if fn, ok := info.Uses[f.Sel].(*types.Func); ok {
			return fn
		}
	}
	return nil
}

var _ = token.NoPos
