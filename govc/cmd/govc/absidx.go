package main

// Quantifiers over string positions are rendered over ABSOLUTE positions of the base array:
// forall k in [lo,hi). P(s[k])  becomes  forall kk in [O+lo, O+hi). P(B[kk]).
// The select term then has the bound variable itself as index, which is a trigger that matches
// every ground read of the same array, however its index was computed.

import (
	"strings"
)

type sexpr struct {
	atom string
	list []*sexpr
}

func parseSexpr(s string) *sexpr {
	pos := 0
	var parse func() *sexpr
	parse = func() *sexpr {
		for pos < len(s) && s[pos] == ' ' {
			pos++
		}
		if pos >= len(s) {
			return nil
		}
		if s[pos] == '(' {
			pos++
			n := &sexpr{list: []*sexpr{}}
			for {
				for pos < len(s) && s[pos] == ' ' {
					pos++
				}
				if pos >= len(s) {
					return n
				}
				if s[pos] == ')' {
					pos++
					return n
				}
				c := parse()
				if c == nil {
					return n
				}
				n.list = append(n.list, c)
			}
		}
		start := pos
		for pos < len(s) && s[pos] != ' ' && s[pos] != '(' && s[pos] != ')' {
			pos++
		}
		return &sexpr{atom: s[start:pos]}
	}
	return parse()
}

func (x *sexpr) isAtom() bool { return x.list == nil }

// findAbsBase looks for a read whose index is exactly O + kn (directly or through a spec function
// taking a string view followed by position kn) and returns the offset term O.
func (p *Prog) findAbsBase(t *sexpr, kn string) (string, bool) {
	if t == nil || t.isAtom() {
		return "", false
	}
	if len(t.list) > 0 && t.list[0].isAtom() {
		head := t.list[0].atom
		if head == "select" && len(t.list) == 3 && t.list[1].isAtom() {
			ix := t.list[2]
			if !ix.isAtom() && len(ix.list) == 3 && ix.list[0].atom == "+" && ix.list[1].isAtom() && ix.list[2].isAtom() && ix.list[2].atom == kn {
				return ix.list[1].atom, true
			}
		}
		if sf, ok := p.spec.Funcs[head]; ok {
			ai := 1
			lastO := ""
			for _, pa := range sf.Params {
				if pa.Type == "str" {
					if ai+2 < len(t.list) && t.list[ai].isAtom() && t.list[ai+1].isAtom() {
						lastO = t.list[ai+1].atom
					} else {
						lastO = ""
					}
					ai += 3
					continue
				}
				if pa.Type == "int" && ai < len(t.list) && t.list[ai].isAtom() && t.list[ai].atom == kn && lastO != "" {
					return lastO, true
				}
				ai++
			}
		}
	}
	for _, c := range t.list {
		if o, ok := p.findAbsBase(c, kn); ok {
			return o, true
		}
	}
	return "", false
}

// absolutize rewrites the quantifier body and range; returns ok=false when no read qualifies.
func (p *Prog) absolutize(body, lo, hi, kn string) (nbody, nlo, nhi string, ok bool) {
	t := parseSexpr(body)
	o, found := p.findAbsBase(t, kn)
	if !found || o == "0" {
		return "", "", "", false
	}
	return p.absolutizeWith(body, lo, hi, kn, o)
}

// allAbsBases lists every distinct offset that qualifies (one rendering per base array is emitted,
// so that each array's reads can trigger the quantifier).
func (p *Prog) allAbsBases(t *sexpr, kn string, acc *[]string) {
	if t == nil || t.isAtom() {
		return
	}
	one := &sexpr{list: []*sexpr{}}
	*one = *t
	// check this node only
	if len(t.list) > 0 && t.list[0].isAtom() {
		shallow := &sexpr{list: t.list}
		saveKids := make([]*sexpr, len(t.list))
		copy(saveKids, t.list)
		_ = shallow
		if o, ok := p.nodeAbsBase(t, kn); ok && o != "0" {
			dup := false
			for _, x := range *acc {
				if x == o {
					dup = true
				}
			}
			if !dup {
				*acc = append(*acc, o)
			}
		}
	}
	for _, c := range t.list {
		p.allAbsBases(c, kn, acc)
	}
}

func (p *Prog) nodeAbsBase(t *sexpr, kn string) (string, bool) {
	head := t.list[0].atom
	if head == "select" && len(t.list) == 3 && t.list[1].isAtom() {
		ix := t.list[2]
		if !ix.isAtom() && len(ix.list) == 3 && ix.list[0].atom == "+" && ix.list[1].isAtom() && ix.list[2].isAtom() && ix.list[2].atom == kn {
			return ix.list[1].atom, true
		}
	}
	if sf, ok := p.spec.Funcs[head]; ok {
		ai := 1
		lastO := ""
		for _, pa := range sf.Params {
			if pa.Type == "str" {
				if ai+2 < len(t.list) && t.list[ai].isAtom() && t.list[ai+1].isAtom() {
					lastO = t.list[ai+1].atom
				} else {
					lastO = ""
				}
				ai += 3
				continue
			}
			if pa.Type == "int" && ai < len(t.list) && t.list[ai].isAtom() && t.list[ai].atom == kn && lastO != "" {
				return lastO, true
			}
			ai++
		}
	}
	return "", false
}

func (p *Prog) absolutizeWith(body, lo, hi, kn, o string) (nbody, nlo, nhi string, ok bool) {
	repl := "(- " + kn + " " + o + ")"
	// replace whole-token occurrences of kn
	var b strings.Builder
	i := 0
	for i < len(body) {
		if strings.HasPrefix(body[i:], kn) {
			end := i + len(kn)
			before := i == 0 || strings.IndexByte(" ()", body[i-1]) >= 0
			after := end == len(body) || strings.IndexByte(" ()", body[end]) >= 0
			if before && after {
				b.WriteString(repl)
				i = end
				continue
			}
		}
		b.WriteByte(body[i])
		i++
	}
	nbody = strings.ReplaceAll(b.String(), "(+ "+o+" "+repl+")", kn)
	return nbody, sAdd(o, lo), sAdd(o, hi), true
}
