package main

// Calls: builtins, conversions, bytes.Buffer / fmt models, contract application.

import (
	"fmt"
	"go/ast"
	"go/constant"
	"go/token"
	"go/types"
	"strings"
)

type VFuncTable struct {
	Keys []string // function keys by index
}

// VFuncChoice is a function value looked up in a package-level map of functions.
type VFuncChoice struct {
	Conds []Term
	Keys  []string
}

type VFuncPick struct {
	Tab VFuncTable
	Idx Term
}

func (e *Ev) evCall(x *ast.CallExpr) Val {
	if e.contract {
		return e.evGhostCall(x)
	}
	// conversion
	if tv, ok := e.info.Types[x.Fun]; ok && tv.IsType() {
		return e.evConversion(x, tv.Type)
	}
	// builtin
	if id, ok := unparen(x.Fun).(*ast.Ident); ok {
		if b, ok := e.info.Uses[id].(*types.Builtin); ok {
			return e.evBuiltin(x, b.Name())
		}
		// a call through a function-typed parameter: it must not be nil; its results are arbitrary
		// values and it is assumed not to touch the modelled heap
		if vo, ok := e.info.Uses[id].(*types.Var); ok {
			if fv, ok := e.st.env[vo].(VFuncParam); ok {
				e.safety("nilfunc", "nilfunc", x.Pos(), sNot(fv.Nil), "called function value is not nil")
				for _, a := range x.Args {
					if ue, ok := unparen(a).(*ast.UnaryExpr); ok && ue.Op == token.AND {
						continue // the address of a local is only handed over
					}
					e.ev(a)
				}
				e.fx.trusted["calls through function-typed parameters return arbitrary values and do not touch the modelled heap (assumed)"] = true
				sig := vo.Type().Underlying().(*types.Signature)
				switch sig.Results().Len() {
				case 0:
					return VTuple{}
				case 1:
					return e.fx.fresh(sig.Results().At(0).Type(), "fnres")
				}
				return e.fx.fresh(sig.Results(), "fnres")
			}
		}
	}
	// method calls
	if sel, ok := unparen(x.Fun).(*ast.SelectorExpr); ok {
		if s, ok := e.info.Selections[sel]; ok && s.Kind() == types.MethodVal {
			recvT := s.Recv()
			if isBuffer(recvT) || isBufferPtr(recvT) {
				return e.evBufferMethod(x, sel)
			}
			fn := s.Obj().(*types.Func)
			if fn.Pkg() != nil && fn.Pkg().Path() == "sync" && (fn.Name() == "Lock" || fn.Name() == "Unlock") {
				mu, ok := e.ev(sel.X).(VSub)
				if !ok {
					e.unsupp(x, "mutex is not a field of a heap object")
				}
				e.mutexOp(mu, fn.Name(), x)
				return VTuple{}
			}
			if v, ok := e.evModelledMethod(x, sel, fn); ok {
				return v
			}
			recv := e.ev(sel.X)
			return e.callFunc(x, fn, recv, true)
		}
	}
	// fmt family
	if fn := e.calleeFunc(x); fn != nil {
		if fn.Pkg() != nil && fn.Pkg().Path() == "fmt" {
			return e.evFmt(x, fn.Name())
		}
		if fn.Pkg() != nil && fn.Pkg().Path() == "sort" && fn.Name() == "Strings" {
			// in-place sort: afterwards the variable holds a permutation of its elements
			id, ok := unparen(x.Args[0]).(*ast.Ident)
			if !ok {
				e.unsupp(x, "sort.Strings of a non-variable")
			}
			obj := e.info.Uses[id]
			old, ok := e.st.env[obj].(VStrs)
			if !ok {
				e.unsupp(x, "sort.Strings of %T", e.st.env[obj])
			}
			nw := VStrs{B: e.fx.declare(sortArrArr, "sorted_b"), O: e.fx.declare(sortArr, "sorted_o"), L: e.fx.declare(sortArr, "sorted_l"), N: old.N}
			e.fx.useSeq = true
			e.fx.specUsed["sortedof"] = true
			e.fx.assume(e.st.pc, fmt.Sprintf("(forall ((j Int)) (=> (and (<= 0 j) (< j %s)) (exists ((i Int)) (and (<= 0 i) (< i %s) (= (select %s j) (select %s i)) (= (select %s j) (select %s i)) (= (select %s j) (select %s i))))))", nw.N, old.N, nw.B, old.B, nw.O, old.O, nw.L, old.L))
			e.fx.trusted["sort.Strings leaves a permutation of the slice (every element afterwards is an element before; assumed); that the result is independent of the input order is NOT derived"] = true
			e.st.env[obj] = nw
			return VTuple{}
		}
		if fn.Pkg() != nil && fn.Pkg().Path() == "unicode" && fn.Name() == "Is" {
			tab, ok := e.ev(x.Args[0]).(VRangeTable)
			if !ok {
				e.unsupp(x, "unicode.Is on a table that is not a package-level range table")
			}
			r := e.intOf(e.ev(x.Args[1]), x.Args[1])
			var ds []Term
			for _, rg := range tab.Ranges {
				ds = append(ds, sAnd(sLe(fmt.Sprintf("%d", rg[0]), r), sLe(r, fmt.Sprintf("%d", rg[1]))))
			}
			e.fx.trusted["unicode.Is(tab, r) <=> r lies in one of the ranges of tab; rangetable.Merge is the union of its arguments (assumed; the merged table is re-validated against the real package in the replay harness)"] = true
			return VBool{e.fx.name(sortBool, "intab", sOr(ds...))}
		}
		if v, ok := e.upperPrefixIdiom(x, fn); ok {
			return v
		}
		r := e.callFunc(x, fn, nil, false)
		e.anyOfFact(x, fn, r)
		return r
	}
	// indirect call through the transition table
	fv := e.ev(x.Fun)
	if p, ok := fv.(VFuncPick); ok {
		return e.callPick(x, p)
	}
	if ch, ok := fv.(VFuncChoice); ok {
		return e.callChoice(x, ch)
	}
	e.unsupp(x, "unsupported call %s", exprString(x.Fun))
	return nil
}

func unparen(x ast.Expr) ast.Expr {
	for {
		p, ok := x.(*ast.ParenExpr)
		if !ok {
			return x
		}
		x = p.X
	}
}

func (e *Ev) calleeFunc(x *ast.CallExpr) *types.Func {
	switch f := unparen(x.Fun).(type) {
	case *ast.Ident:
		if fn, ok := e.info.Uses[f].(*types.Func); ok {
			return fn
		}
	case *ast.SelectorExpr:
		if fn, ok := e.info.Uses[f.Sel].(*types.Func); ok {
			return fn
		}
	}
	return nil
}

func (e *Ev) evConversion(x *ast.CallExpr, t types.Type) Val {
	if len(x.Args) != 1 {
		e.unsupp(x, "conversion with %d args", len(x.Args))
	}
	if tv, ok := e.info.Types[x]; ok && tv.Value != nil {
		return constVal(tv.Value, tv.Type, e.fx)
	}
	v := e.ev(x.Args[0])
	switch u := t.Underlying().(type) {
	case *types.Basic:
		switch {
		case u.Info()&types.IsString != 0:
			switch a := v.(type) {
			case VStr:
				return a
			case VRunes:
				return e.fx.encodeRunes(e.st.pc, a)
			}
		case u.Info()&types.IsInteger != 0:
			if a, ok := v.(VInt); ok {
				if lo, hi, ok := intRange(u); ok {
					e.safety("convrange", "convrange", x.Pos(), sAnd(sLe(lo, a.T), sLe(a.T, hi)), "integer conversion keeps the value")
				}
				return a
			}
		}
	case *types.Slice:
		if isByteSlice(t) {
			if a, ok := v.(VStr); ok {
				return a
			}
		}
	}
	// a map converted to a map type with the same underlying type is the same map object
	if m, ok := v.(VMapRef); ok {
		if _, isMap := t.Underlying().(*types.Map); isMap && types.Identical(t.Underlying(), e.typeOf(x.Args[0]).Underlying()) {
			return m
		}
	}
	e.unsupp(x, "unsupported conversion of %T to %s", v, t)
	return nil
}

func (e *Ev) evBuiltin(x *ast.CallExpr, name string) Val {
	switch name {
	case "len":
		v := e.ev(x.Args[0])
		switch a := v.(type) {
		case VStr:
			return VInt{a.L}
		case VStrs:
			return VInt{a.N}
		case VIfaces:
			return VInt{a.N}
		case VRefs:
			return VInt{a.N}
		case VRunes:
			return VInt{a.N}
		case VSubmatch:
			return VInt{sIte(a.Hit, fmt.Sprintf("%d", a.N), "0")}
		case VArr:
			if at, ok := e.typeOf(x.Args[0]).Underlying().(*types.Array); ok {
				return VInt{fmt.Sprintf("%d", at.Len())}
			}
		case VHeapMap:
			return VInt{e.fx.heapMapLen(a)}
		case VMapLit:
			return VInt{fmt.Sprintf("%d", len(a.Entries))}
		case VStrMap:
			n := e.fx.declare(sortInt, "maplen")
			e.fx.emit(fmt.Sprintf("(assert (and (<= 0 %s) (< %s %s)))", n, n, maxLen))
			return VInt{n}
		case VArrLit:
			return VInt{fmt.Sprintf("%d", a.Len)}
		case VMapRef:
			n := e.fx.declare(sortInt, "maplen")
			e.fx.emit(fmt.Sprintf("(assert (and (<= 0 %s) (< %s %s)))", n, n, maxLen))
			return VInt{n}
		}
		e.unsupp(x, "len of %T", v)
	case "panic":
		e.safety("panic", "panic", x.Pos(), "false", "explicit panic is unreachable")
		panic(abruptPanic{})
	case "make":
		t := e.typeOf(x)
		switch u := t.Underlying().(type) {
		case *types.Slice:
			if b, ok := u.Elem().Underlying().(*types.Basic); ok {
				if b.Info()&types.IsString != 0 {
					if len(x.Args) >= 2 {
						n := e.intOf(e.ev(x.Args[1]), x.Args[1])
						if n != "0" {
							e.unsupp(x, "make([]string, n) with n != 0")
						}
					}
					return e.fx.nilStrs()
				}
				if b.Kind() == types.Int32 {
					if len(x.Args) >= 2 {
						n := e.intOf(e.ev(x.Args[1]), x.Args[1])
						if n != "0" {
							e.unsupp(x, "make([]rune, n) with n != 0")
						}
					}
					e.fx.useSeq = true
					return VRunes{Seq: "bs_empty", N: "0"}
				}
			}
			if en, ok := refLikeElem(u.Elem()); ok && !e.contract {
				// make([]*T, 0, cap): an empty slice of references (the capacity is not modelled)
				n := Term("0")
				if len(x.Args) >= 2 {
					n = e.intOf(e.ev(x.Args[1]), x.Args[1])
				}
				if len(x.Args) >= 3 {
					c := e.intOf(e.ev(x.Args[2]), x.Args[2])
					if n != "0" {
						e.safety("make", "makecap", x.Pos(), sLe(n, c), "make: len does not exceed cap")
					}
				}
				if n != "0" {
					// make([]*T, n, cap): n nil references
					e.safety("make", "makelen", x.Pos(), sLe("0", n), "make: len is not negative")
					return VRefs{Arr: "((as const (Array Int Int)) 0)", N: n, Elem: en}
				}
				return VRefs{Arr: e.fx.declare(sortArr, "mk_refs"), N: "0", Elem: en}
			}
		case *types.Map:
			return e.makeMap(u, x)
		}
		e.unsupp(x, "make of %s", t)
	case "append":
		base := e.ev(x.Args[0])
		switch b := base.(type) {
		case VStrs:
			if x.Ellipsis.IsValid() {
				// append(a, b...): the elements of a followed by those of b
				if o, ok := e.ev(x.Args[1]).(VStrs); ok && len(x.Args) == 2 && !e.contract {
					fx := e.fx
					n := fx.name(sortInt, "apn", sAdd(b.N, o.N))
					fx.assume(e.st.pc, sLt(n, maxLen)) // standing assumption: every slice is shorter than 2^56
					nb, no, nl := fx.declare(sortArrArr, "ap_sb"), fx.declare(sortArr, "ap_so"), fx.declare(sortArr, "ap_sl")
					fx.assume(e.st.pc, fmt.Sprintf("(forall ((k!ap Int)) (=> (and (<= 0 k!ap) (< k!ap %s)) (and (= (select %s k!ap) (select %s k!ap)) (= (select %s k!ap) (select %s k!ap)) (= (select %s k!ap) (select %s k!ap)))))", b.N, nb, b.B, no, b.O, nl, b.L))
					fx.assume(e.st.pc, fmt.Sprintf("(forall ((k!ap Int)) (=> (and (<= 0 k!ap) (< k!ap %s)) (and (= (select %s (+ %s k!ap)) (select %s k!ap)) (= (select %s (+ %s k!ap)) (select %s k!ap)) (= (select %s (+ %s k!ap)) (select %s k!ap)))))", o.N, nb, b.N, o.B, no, b.N, o.O, nl, b.N, o.L))
					return VStrs{B: nb, O: no, L: nl, N: n, Wrap: b.Wrap, WrapField: b.WrapField}
				}
				e.unsupp(x, "append with ...")
			}
			cur := b
			for _, a := range x.Args[1:] {
				s, ok := e.ev(a).(VStr)
				if !ok {
					e.unsupp(a, "append of non-string")
				}
				cur = VStrs{
					B: e.fx.name(sortArrArr, "sb", fmt.Sprintf("(store %s %s %s)", cur.B, cur.N, s.B)),
					O: e.fx.name(sortArr, "so", fmt.Sprintf("(store %s %s %s)", cur.O, cur.N, s.O)),
					L: e.fx.name(sortArr, "sl", fmt.Sprintf("(store %s %s %s)", cur.L, cur.N, s.L)),
					N: e.fx.name(sortInt, "sn", sAdd(cur.N, "1")),
				}
			}
			return cur
		case VNil:
			t := e.typeOf(x)
			z := e.fx.zero(t)
			if zs, ok := z.(VStrs); ok {
				cur := zs
				for _, a := range x.Args[1:] {
					s, ok := e.ev(a).(VStr)
					if !ok {
						e.unsupp(a, "append of non-string")
					}
					cur = VStrs{
						B: e.fx.name(sortArrArr, "sb", fmt.Sprintf("(store %s %s %s)", cur.B, cur.N, s.B)),
						O: e.fx.name(sortArr, "so", fmt.Sprintf("(store %s %s %s)", cur.O, cur.N, s.O)),
						L: e.fx.name(sortArr, "sl", fmt.Sprintf("(store %s %s %s)", cur.L, cur.N, s.L)),
						N: e.fx.name(sortInt, "sn", sAdd(cur.N, "1")),
					}
				}
				return cur
			}
		case VRefs:
			if x.Ellipsis.IsValid() {
				e.unsupp(x, "append with ... to a slice of references")
			}
			cur := b
			for _, a := range x.Args[1:] {
				var rt Term
				switch r := e.ev(a).(type) {
				case VRef:
					rt = r.T
				case VNil:
					rt = "0"
				default:
					e.unsupp(a, "append of %T to a slice of references", r)
				}
				n := e.fx.name(sortInt, "rfn", sAdd(cur.N, "1"))
				e.fx.assume(e.st.pc, sLt(n, maxLen)) // standing assumption: every slice is shorter than 2^56
				cur = VRefs{Arr: e.fx.name(sortArr, "rfa", fmt.Sprintf("(store %s %s %s)", cur.Arr, cur.N, rt)), N: n, Elem: cur.Elem}
			}
			return cur
		case VRunes:
			cur := b
			for _, a := range x.Args[1:] {
				r := e.intOf(e.ev(a), a)
				cur = VRunes{Seq: e.fx.name(sortSeq, "rs", seqCat(cur.Seq, "(bs_unit "+r+")")), N: e.fx.name(sortInt, "rn", sAdd(cur.N, "1"))}
			}
			return cur
		}
		e.unsupp(x, "append to %T", base)
	case "new":
		if t := e.typeOf(x.Args[0]); t != nil && isBuffer(t) {
			e.fx.useSeq = true
			return VBuf{"bs_empty", "0"} // a *bytes.Buffer variable is modelled as the buffer itself
		}
		e.unsupp(x, "new of %s", exprString(x.Args[0]))
	case "delete":
		if m, ok := e.ev(x.Args[0]).(VMapRef); ok && !e.contract {
			// delete(m, k) on a map object of the heap: k leaves the domain of m
			ks, _ := mapSorts(m)
			kt := e.mapKeyTerm(m, e.ev(x.Args[1]), x)
			dk := mapKeyName(m) + "#dom"
			dsort := arrSort("(Array " + ks + " Bool)")
			dom := e.fx.hget(e.st, dk, dsort)
			e.safety("nil", "nilderef", x.Pos(), "true", "delete on a nil map is a no-op")
			e.fx.hset(e.st, dk, e.fx.name(dsort, "hd", fmt.Sprintf("(store %s %s (store (select %s %s) %s false))", dom, m.T, dom, m.T, kt)))
			return VTuple{}
		}
		e.unsupp(x, "builtin %s is not modelled", name)
	case "copy", "cap":
		e.unsupp(x, "builtin %s is not modelled", name)
	}
	e.unsupp(x, "builtin %s", name)
	return nil
}

type abruptPanic struct{}

// VRunes is a []rune under construction: a ghost sequence of code points.
type VRunes struct {
	Seq Term
	N   Term
}

func (fx *FuncCtx) encodeRunes(pc Term, r VRunes) VStr {
	fx.useSeq = true
	fx.specUsed["utf8enc"] = true
	s := fx.freshStr("enc")
	fx.assume(pc, sEq(fx.seqOf(s), "(utf8enc "+r.Seq+")"))
	fx.trusted["string([]rune) is the UTF-8 encoding utf8enc of the code points (assumed U-facts, DESIGN 2.5)"] = true
	return s
}

// ---------------------------------------------------------------------------
// bytes.Buffer

func (e *Ev) bufTarget(x ast.Expr) (types.Object, VBuf) {
	x = unparen(x)
	if u, ok := x.(*ast.UnaryExpr); ok {
		x = unparen(u.X)
	}
	id, ok := x.(*ast.Ident)
	if !ok {
		e.unsupp(x, "buffer expression must be a variable")
	}
	obj := e.info.Uses[id]
	v, ok := e.st.env[obj]
	if !ok {
		e.unsupp(x, "unknown buffer variable %s", id.Name)
	}
	switch b := v.(type) {
	case VBuf:
		return obj, b
	case VBufPtr:
		return b.Obj, e.st.env[b.Obj].(VBuf)
	}
	e.unsupp(x, "%s is not a buffer", id.Name)
	return nil, VBuf{}
}

func (e *Ev) bufAppend(obj types.Object, b VBuf, seq Term, ln Term) {
	nb := VBuf{
		Seq: e.fx.name(sortSeq, "bq", seqCat(b.Seq, seq)),
		Len: e.fx.name(sortInt, "bl", sAdd(b.Len, ln)),
	}
	e.st.env[obj] = nb
}

func (e *Ev) evBufferMethod(x *ast.CallExpr, sel *ast.SelectorExpr) Val {
	e.fx.useSeq = true
	e.fx.trusted["bytes.Buffer: Write*/Len/String/Bytes behave as an append-only byte sequence (built-in model)"] = true
	obj, b := e.bufTarget(sel.X)
	switch sel.Sel.Name {
	case "WriteString", "Write":
		s, ok := e.ev(x.Args[0]).(VStr)
		if !ok {
			e.unsupp(x, "Write of non-string")
		}
		e.bufAppend(obj, b, e.fx.seqOf(s), s.L)
		return VTuple{VInt{s.L}, VErr{"0"}}
	case "WriteByte":
		c := e.intOf(e.ev(x.Args[0]), x.Args[0])
		e.bufAppend(obj, b, "(bs_unit "+c+")", "1")
		return VErr{"0"}
	case "WriteRune":
		c := e.intOf(e.ev(x.Args[0]), x.Args[0])
		e.fx.specUsed["utf8enc"] = true
		e.fx.specUsed["utf8len"] = true
		e.fx.trusted["(*bytes.Buffer).WriteRune appends utf8enc of the rune (assumed)"] = true
		e.bufAppend(obj, b, "(utf8enc (bs_unit "+c+"))", "(utf8len "+c+")")
		return VTuple{VInt{"(utf8len " + c + ")"}, VErr{"0"}}
	case "Len":
		return VInt{b.Len}
	case "String", "Bytes":
		r := e.fx.freshStr("bufstr")
		e.fx.assume(e.st.pc, sAnd(sEq(r.L, b.Len), sEq(e.fx.seqOf(r), b.Seq)))
		return r
	case "Grow":
		return VTuple{}
	case "Next":
		// Next(n) returns the next min(n, Len) unread bytes and drops them; a negative n panics
		// (slice bounds out of range inside package bytes)
		e.fx.trusted["(*bytes.Buffer).Next(n) drops and returns the first min(n, Len) unread bytes and panics for n < 0 (built-in model)"] = true
		n := e.intOf(e.ev(x.Args[0]), x.Args[0])
		e.safety("index", "bufnext", x.Pos(), sLe("0", n), "Buffer.Next is not called with a negative count")
		r := e.fx.freshStr("bufstr")
		e.fx.assume(e.st.pc, sAnd(sEq(r.L, b.Len), sEq(e.fx.seqOf(r), b.Seq)))
		m := e.fx.name(sortInt, "nx", sIte(sLe(n, b.Len), n, b.Len))
		rest := VStr{B: r.B, O: e.fx.name(sortInt, "so", sAdd(r.O, m)), L: e.fx.name(sortInt, "sl", sSub(b.Len, m))}
		e.st.env[obj] = VBuf{Seq: e.fx.name(sortSeq, "bq", e.fx.seqOf(rest)), Len: rest.L}
		return VStr{B: r.B, O: r.O, L: m}
	}
	e.unsupp(x, "bytes.Buffer method %s is not modelled", sel.Sel.Name)
	return nil
}

// ---------------------------------------------------------------------------
// fmt

type fmtPiece struct {
	lit  string
	verb string // e.g. "s", "02x", "06X", "q", "v", "d"
	arg  int
}

func parseFormat(f string) ([]fmtPiece, bool) {
	var out []fmtPiece
	arg := 0
	var lit strings.Builder
	for i := 0; i < len(f); i++ {
		if f[i] != '%' {
			lit.WriteByte(f[i])
			continue
		}
		if i+1 < len(f) && f[i+1] == '%' {
			lit.WriteByte('%')
			i++
			continue
		}
		j := i + 1
		for j < len(f) && strings.IndexByte("0123456789.+-# ", f[j]) >= 0 {
			j++
		}
		if j >= len(f) {
			return nil, false
		}
		if lit.Len() > 0 {
			out = append(out, fmtPiece{lit: lit.String()})
			lit.Reset()
		}
		out = append(out, fmtPiece{verb: f[i+1 : j+1], arg: arg})
		arg++
		i = j
	}
	if lit.Len() > 0 {
		out = append(out, fmtPiece{lit: lit.String()})
	}
	return out, true
}

// formatSeq returns the sequence and length of a formatted string, or ok=false when opaque.
func (e *Ev) formatSeq(x *ast.CallExpr, fmtIdx int) (seq Term, ln Term, ok bool) {
	tv := e.info.Types[x.Args[fmtIdx]]
	if tv.Value == nil || tv.Value.Kind() != constant.String {
		return "", "", false
	}
	pieces, good := parseFormat(constant.StringVal(tv.Value))
	if !good {
		return "", "", false
	}
	var seqs []Term
	ln = "0"
	for _, p := range pieces {
		if p.verb == "" {
			seqs = append(seqs, seqLit(p.lit))
			ln = sAdd(ln, fmt.Sprintf("%d", len(p.lit)))
			continue
		}
		ai := fmtIdx + 1 + p.arg
		if ai >= len(x.Args) {
			return "", "", false
		}
		av := e.ev(x.Args[ai])
		switch p.verb {
		case "s":
			s, isStr := av.(VStr)
			if !isStr {
				return "", "", false
			}
			seqs = append(seqs, e.fx.seqOf(s))
			ln = sAdd(ln, s.L)
		case "02x":
			c, isInt := av.(VInt)
			if !isInt {
				return "", "", false
			}
			e.fx.specUsed["hex2lower"] = true
			// %02x of a byte value is exactly two digits
			e.safety("fmtrange", "fmtrange", x.Pos(), sAnd(sLe("0", c.T), sLe(c.T, "255")), "%02x argument is a byte")
			seqs = append(seqs, "(hex2lower "+c.T+")")
			ln = sAdd(ln, "2")
		case "06X":
			c, isInt := av.(VInt)
			if !isInt {
				return "", "", false
			}
			e.fx.specUsed["hex6upper"] = true
			e.safety("fmtrange", "fmtrange", x.Pos(), sAnd(sLe("0", c.T), sLe(c.T, "16777215")), "%06X argument has at most six hex digits")
			seqs = append(seqs, "(hex6upper "+c.T+")")
			ln = sAdd(ln, "6")
		default:
			// a verb that is not modelled formats to an unknown text
			e.fx.useSeq = true
			us := e.fx.declare(sortSeq, "fmtopaque")
			ul := e.fx.declare(sortInt, "fmtopaque_len")
			e.fx.emit(fmt.Sprintf("(assert (and (<= 0 %s) (= (bs_len %s) %s)))", ul, us, ul))
			seqs = append(seqs, us)
			ln = sAdd(ln, ul)
		}
	}
	e.fx.useSeq = true
	e.fx.trusted["fmt.Sprintf/Fprintf: %s, %%, %02x, %06X format as literal segments and arguments concatenated (built-in model)"] = true
	return seqCat(seqs...), ln, true
}

func (e *Ev) evFmt(x *ast.CallExpr, name string) Val {
	switch name {
	case "Errorf":
		for _, a := range x.Args[1:] {
			e.evOpaqueArg(a)
		}
		r := e.fx.declare(sortInt, "err")
		e.fx.emit(fmt.Sprintf("(assert (>= %s 1000))", r))
		return VErr{r}
	case "Sprintf":
		seq, ln, ok := e.formatSeq(x, 0)
		r := e.fx.freshStr("sprintf")
		if ok {
			e.fx.assume(e.st.pc, sAnd(sEq(r.L, ln), sEq(e.fx.seqOf(r), seq)))
		} else {
			for _, a := range x.Args[1:] {
				e.evOpaqueArg(a)
			}
		}
		return r
	case "Fprintf":
		obj, b := e.bufTarget(x.Args[0])
		seq, ln, ok := e.formatSeq(x, 1)
		if !ok {
			e.unsupp(x, "Fprintf with a format that is not modelled")
		}
		e.bufAppend(obj, b, seq, ln)
		return VTuple{VInt{ln}, VErr{"0"}}
	case "Sprint":
		for _, a := range x.Args {
			e.evOpaqueArg(a)
		}
		return e.fx.freshStr("sprint")
	}
	e.unsupp(x, "fmt.%s is not modelled", name)
	return nil
}

// evOpaqueArg evaluates an argument only for its safety obligations; failures to model it are ignored
// because the value only flows into an error message.
func (e *Ev) evOpaqueArg(a ast.Expr) {
	defer func() {
		if r := recover(); r != nil {
			if _, ok := r.(unsupported); ok {
				return
			}
			panic(r)
		}
	}()
	e.ev(a)
}

// ---------------------------------------------------------------------------
// contract application

func (e *Ev) callFunc(x *ast.CallExpr, fn *types.Func, recv Val, hasRecv bool) Val {
	key := funcKey(fn)
	con := e.fx.prog.spec.Contracts[key]
	if con == nil {
		e.unsupp(x, "call to %s, which has no contract", key)
	}
	sig := fn.Type().(*types.Signature)
	var args []Val
	np := sig.Params().Len()
	for i := 0; i < np; i++ {
		pt := sig.Params().At(i).Type()
		if sig.Variadic() && i == np-1 {
			if x.Ellipsis.IsValid() {
				av := e.ev(x.Args[i])
				if _, isBuf := av.(VBuf); isBuf && !e.contract {
					// a variable of type *bytes.Buffer (modelled as the buffer itself) handed on to a
					// callee: passed by reference, so the callee's effect on it is seen afterwards
					if id, ok := unparen(x.Args[i]).(*ast.Ident); ok {
						if obj := e.info.Uses[id]; obj != nil {
							if _, isPtr := obj.Type().(*types.Pointer); isPtr {
								av = VBufPtr{obj}
							}
						}
					}
				}
				args = append(args, av)
			} else {
				args = append(args, e.packVariadic(x.Args[i:], pt, x))
			}
			break
		}
		if i >= len(x.Args) {
			e.unsupp(x, "too few arguments")
		}
		args = append(args, e.coerceTo(e.ev(x.Args[i]), pt, x.Args[i]))
	}
	return e.applyContract(x, con, fn, recv, args)
}

func (e *Ev) packVariadic(as []ast.Expr, sliceT types.Type, n ast.Node) Val {
	st := sliceT.(*types.Slice)
	if isEmptyInterface(st.Elem()) {
		r := VIfaces{N: fmt.Sprintf("%d", len(as)), Tag: "((as const (Array Int Int)) 0)", B: e.fx.constArrArr(), O: "((as const (Array Int Int)) 0)", L: "((as const (Array Int Int)) 0)"}
		for i, a := range as {
			iv := e.toIfaceLenient(a)
			k := fmt.Sprintf("%d", i)
			r.Tag = fmt.Sprintf("(store %s %s %s)", r.Tag, k, iv.Tag)
			r.B = fmt.Sprintf("(store %s %s %s)", r.B, k, iv.S.B)
			r.O = fmt.Sprintf("(store %s %s %s)", r.O, k, iv.S.O)
			r.L = fmt.Sprintf("(store %s %s %s)", r.L, k, iv.S.L)
		}
		return VIfaces{e.fx.name(sortInt, "vn", r.N), e.fx.name(sortArr, "vt", r.Tag), e.fx.name(sortArrArr, "vb", r.B), e.fx.name(sortArr, "vo", r.O), e.fx.name(sortArr, "vl", r.L)}
	}
	if b, ok := st.Elem().Underlying().(*types.Basic); ok && b.Info()&types.IsString != 0 {
		r := e.fx.nilStrs()
		for i, a := range as {
			s, ok := e.ev(a).(VStr)
			if !ok {
				e.unsupp(a, "non-string variadic argument")
			}
			k := fmt.Sprintf("%d", i)
			r.B = fmt.Sprintf("(store %s %s %s)", r.B, k, s.B)
			r.O = fmt.Sprintf("(store %s %s %s)", r.O, k, s.O)
			r.L = fmt.Sprintf("(store %s %s %s)", r.L, k, s.L)
		}
		r.N = fmt.Sprintf("%d", len(as))
		return r
	}
	e.unsupp(n, "variadic parameter of type %s", sliceT)
	return nil
}

// applyContract asserts the callee's requires and assumes its ensures.
func (e *Ev) applyContract(x ast.Node, con *Contract, fn *types.Func, recv Val, args []Val) Val {
	fx := e.fx
	sig := fn.Type().(*types.Signature)
	if len(con.Params) != sig.Params().Len() {
		panic(contractDrift{fmt.Sprintf("contract %s lists %d parameters, the code has %d", con.Key, len(con.Params), sig.Params().Len())})
	}
	if con.Assumed {
		fx.trusted["assumed contract: "+con.Key] = true
	}
	pre := map[string]Val{}
	post := map[string]Val{}
	if con.RecvName != "" && recv != nil {
		pre[con.RecvName], post[con.RecvName] = recv, recv
	}
	// buffers passed by pointer are havocked
	type bufUpd struct {
		obj types.Object
		nv  VBuf
	}
	var upds []bufUpd
	for i, pn := range con.Params {
		a := args[i]
		if bp, ok := a.(VBufPtr); ok {
			old := e.st.env[bp.Obj].(VBuf)
			nv := fx.fresh(bytesBufferType(fx.prog), "buf").(VBuf)
			pre[pn], post[pn] = old, nv
			upds = append(upds, bufUpd{bp.Obj, nv})
			continue
		}
		pre[pn], post[pn] = a, a
	}
	var calleePkg *types.Package
	if fn.Pkg() != nil {
		calleePkg = fn.Pkg()
	}
	preSt := e.st.clone()
	preEv := &Ev{fx: fx, st: preSt, contract: true, pkg: calleePkg, lookup: func(n string) (Val, bool) {
		if v, ok := pre[n]; ok {
			return v, true
		}
		// a result named inside old(...) is the result itself (requires clauses never name results)
		v, ok := post[n]
		return v, ok
	}}
	for i, rq := range con.Requires {
		lbl := rq.Label
		if lbl == "" {
			lbl = fmt.Sprintf("requires%d", i+1)
		}
		t := preEv.boolOf(preEv.ev(rq.Expr), rq.Expr)
		fx.obligeN("pre", "pre."+shortKey(con.Key)+"."+lbl+"@call", x.Pos(), e.st.pc, t, "precondition of "+con.Key+": "+rq.Text)
	}
	// recursion: the callee's variant must be smaller than the caller's at entry
	if g := con.Options["recgroup"]; g != "" && fx.con != nil && fx.con.Options["recgroup"] == g && con.Key != fx.key {
		// mutual recursion inside a declared group: the callee's variant at the call must be below the
		// caller's variant at entry (both variants are over the same well-founded order, the naturals)
		if con.Decreases == nil || fx.con.Decreases == nil {
			fx.obligeN("decreases", "recursion.decreases@call", x.Pos(), e.st.pc, "false", "call inside a recursion group without a decreases clause")
		} else {
			m1 := preEv.intOf(preEv.ev(con.Decreases.Expr), con.Decreases.Expr)
			ce := fx.clauseEv(fx.entry, fx.decl.Body.Lbrace+1, nil)
			m0 := ce.intOf(ce.ev(fx.con.Decreases.Expr), fx.con.Decreases.Expr)
			fx.obligeN("decreases", "recursion.decreases@call", x.Pos(), e.st.pc, sAnd(sLe("0", m1), sLt(m1, m0)), "the callee's variant at the call is below the caller's variant at entry: "+con.Decreases.Text+" < "+fx.con.Decreases.Text)
		}
	}
	if con.Key == fx.key {
		if con.Decreases == nil {
			fx.obligeN("decreases", "recursion.decreases@call", x.Pos(), e.st.pc, "false", "recursive call without a decreases clause")
		} else {
			m1 := preEv.intOf(preEv.ev(con.Decreases.Expr), con.Decreases.Expr)
			ce := fx.clauseEv(fx.entry, fx.decl.Body.Lbrace+1, nil)
			m0 := ce.intOf(ce.ev(con.Decreases.Expr), con.Decreases.Expr)
			fx.obligeN("decreases", "recursion.decreases@call", x.Pos(), e.st.pc, sAnd(sLe("0", m1), sLt(m1, m0)), "the variant decreases at the recursive call: "+con.Decreases.Text)
		}
	}
	// heap effects
	e.havocHeapFor(con)
	// results
	var results []Val
	for i := 0; i < sig.Results().Len(); i++ {
		nm := "r"
		if i < len(con.Results) {
			nm = con.Results[i]
		}
		rv := fx.fresh(sig.Results().At(i).Type(), "r_"+fn.Name()+"_"+nm)
		for _, rt := range refTermsOf(rv) {
			fx.assume(e.st.pc, sLe(rt, fx.allocTerm(e.st)))
		}
		results = append(results, rv)
		if i < len(con.Results) && con.Results[i] != "_" {
			post[con.Results[i]] = rv
		}
	}
	for _, u := range upds {
		e.st.env[u.obj] = u.nv
	}
	postEv := &Ev{fx: fx, st: e.st, contract: true, pkg: calleePkg, lookup: func(n string) (Val, bool) { v, ok := post[n]; return v, ok }, oldEv: preEv, modKeys: strings.Fields(con.Options["modifies"])}
	for _, en := range con.Ensures {
		t := postEv.boolOf(postEv.ev(en.Expr), en.Expr)
		fx.assume(e.st.pc, t)
	}
	for _, en := range con.Defines {
		t := postEv.boolOf(postEv.ev(en.Expr), en.Expr)
		fx.assume(e.st.pc, t)
		fx.trusted["result naming: "+con.Key+" is a deterministic function of its arguments ("+en.Text+")"] = true
	}
	switch len(results) {
	case 0:
		return VTuple{}
	case 1:
		return results[0]
	}
	return VTuple(results)
}

type contractDrift struct{ msg string }

func shortKey(k string) string {
	if i := strings.LastIndex(k, "/"); i >= 0 {
		k = k[i+1:]
	}
	return k
}

func bytesBufferType(p *Prog) types.Type {
	for _, pk := range p.allTypes {
		if pk.Path() == "bytes" {
			return pk.Scope().Lookup("Buffer").Type()
		}
	}
	panic("bytes package not loaded")
}

// callPick dispatches transitionFunc[c.state](c, s) over the table entries.
func (e *Ev) callPick(x *ast.CallExpr, p VFuncPick) Val {
	var args []Val
	for _, a := range x.Args {
		args = append(args, e.ev(a))
	}
	var outs []Val
	var conds []Term
	for i, key := range p.Tab.Keys {
		con := e.fx.prog.spec.Contracts[key]
		fn := e.fx.prog.funcByKey[key]
		if con == nil || fn == nil {
			e.unsupp(x, "table entry %s has no contract", key)
		}
		c := sEq(p.Idx, fmt.Sprintf("%d", i))
		sub := e.withPC(e.fx.name(sortBool, "pc", sAnd(e.st.pc, c)))
		outs = append(outs, sub.applyContract(x, con, fn, nil, args))
		conds = append(conds, c)
	}
	acc := outs[len(outs)-1]
	for i := len(outs) - 2; i >= 0; i-- {
		acc = e.fx.iteVal(conds[i], outs[i], acc)
	}
	return acc
}

// anyOfFact adds the language reading of strings.ContainsAny(s, "chars") for a literal ASCII set:
// the result is membership of s in the language (?s)[chars] (second assumed characterisation of the
// same function; lets P2 lemmas talk about it).
func (e *Ev) anyOfFact(x *ast.CallExpr, fn *types.Func, r Val) {
	if fn.Pkg() == nil || fn.Pkg().Path() != "strings" || (fn.Name() != "ContainsAny" && fn.Name() != "ContainsRune") || len(x.Args) != 2 {
		return
	}
	tv := e.info.Types[x.Args[1]]
	if tv.Value == nil {
		return
	}
	var chars string
	switch tv.Value.Kind() {
	case constant.String:
		chars = constant.StringVal(tv.Value)
	case constant.Int:
		n, _ := constant.Int64Val(tv.Value)
		if n < 0 || n >= 0x80 {
			return
		}
		chars = string(rune(n))
	default:
		return
	}
	name := "anyof"
	var cls strings.Builder
	for i := 0; i < len(chars); i++ {
		if chars[i] >= 0x80 {
			return
		}
		name += fmt.Sprintf("_%02x", chars[i])
		cls.WriteString(fmt.Sprintf("\\x%02x", chars[i]))
	}
	pat := "(?s)[" + cls.String() + "]"
	e.fx.prog.registerSpecRegex(name, pat)
	s, ok := e.ev(x.Args[0]).(VStr)
	rb, ok2 := r.(VBool)
	if !ok || !ok2 {
		return
	}
	e.fx.langsUsed[name] = true
	e.fx.useSeq = true
	e.fx.assume(e.st.pc, sEq(rb.T, "(inlang_"+name+" "+e.fx.seqOf(s)+")"))
	e.fx.trusted["strings.ContainsAny(s, ASCII literal) <=> s contains a rune of the set (language reading, assumed)"] = true
}

// callChoice calls a function value obtained from a table of functions: one contract per entry.
func (e *Ev) callChoice(x *ast.CallExpr, ch VFuncChoice) Val {
	var args []Val
	for _, a := range x.Args {
		args = append(args, e.ev(a))
	}
	e.safety("nilfunc", "nilfunc", x.Pos(), sOr(ch.Conds...), "called function value is not nil")
	var outs []Val
	for i, key := range ch.Keys {
		con := e.fx.prog.spec.Contracts[key]
		fn := e.fx.prog.funcByKey[key]
		if con == nil || fn == nil {
			e.unsupp(x, "table entry %s has no contract", key)
		}
		sub := e.withPC(e.fx.name(sortBool, "pc", sAnd(e.st.pc, ch.Conds[i])))
		outs = append(outs, sub.applyContract(x, con, fn, nil, args))
	}
	acc := outs[len(outs)-1]
	for i := len(outs) - 2; i >= 0; i-- {
		acc = e.fx.iteVal(ch.Conds[i], outs[i], acc)
	}
	return acc
}

// toIfaceLenient evaluates an argument that is passed as interface{}; what cannot be modelled
// becomes a value of dynamic type "other" (such arguments only feed messages).
func (e *Ev) toIfaceLenient(a ast.Expr) (iv VIface) {
	defer func() {
		if r := recover(); r != nil {
			if _, ok := r.(unsupported); ok {
				iv = VIface{Tag: fmt.Sprintf("%d", tagOther), S: e.fx.strLit("")}
				return
			}
			panic(r)
		}
	}()
	return e.toIface(e.ev(a), a)
}

// upperPrefixIdiom: bytes.HasPrefix(bytes.ToUpper(x), LIT) with an ASCII literal without lower-case
// letters is "x starts with LIT, ASCII case-insensitively" (assumed contract of the composition:
// ToUpper maps an ASCII prefix byte by byte and a non-ASCII rune to non-ASCII bytes).
func (e *Ev) upperPrefixIdiom(x *ast.CallExpr, fn *types.Func) (Val, bool) {
	if fn.Pkg() == nil || fn.Pkg().Path() != "bytes" || fn.Name() != "HasPrefix" || len(x.Args) != 2 {
		return nil, false
	}
	inner, ok := unparen(x.Args[0]).(*ast.CallExpr)
	if !ok {
		return nil, false
	}
	ifn := e.calleeFunc(inner)
	if ifn == nil || ifn.Pkg() == nil || ifn.Pkg().Path() != "bytes" || ifn.Name() != "ToUpper" || len(inner.Args) != 1 {
		return nil, false
	}
	lit, ok := e.ev(x.Args[1]).(VStr)
	if !ok || lit.Lit == nil {
		return nil, false
	}
	for i := 0; i < len(*lit.Lit); i++ {
		c := (*lit.Lit)[i]
		if c >= 0x80 || c >= 'a' && c <= 'z' {
			return nil, false
		}
	}
	s, ok := e.ev(inner.Args[0]).(VStr)
	if !ok {
		return nil, false
	}
	e.fx.specUsed["asciiupper"] = true
	cs := []Term{sLe(fmt.Sprintf("%d", len(*lit.Lit)), s.L)}
	for i := 0; i < len(*lit.Lit); i++ {
		cs = append(cs, fmt.Sprintf("(= (asciiupper (select %s %s)) %d)", s.B, sAdd(s.O, fmt.Sprintf("%d", i)), (*lit.Lit)[i]))
	}
	e.fx.trusted["bytes.HasPrefix(bytes.ToUpper(x), ASCII literal) <=> x starts with the literal ASCII-case-insensitively (assumed contract of the composition)"] = true
	return VBool{e.fx.name(sortBool, "upfx", sAnd(cs...))}, true
}
