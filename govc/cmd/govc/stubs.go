package main

import (
	"fmt"
	"go/ast"
)

func (fx *FuncCtx) initHeap(st *State)                  {}
func (fx *FuncCtx) copyHeapForPost(pst, rst *State)     {}
func (x *Exec) havocHeapLoop(ls *loopSpec, head *State) {}

func (x *Exec) heapWrite(r VRef, field string, v Val, st *State, n ast.Node) {
	unsupp(n.Pos(), x.fx.prog.fset, "heap write is outside the modelled subset")
}
func (x *Exec) indexAssign(l *ast.IndexExpr, v Val, st *State) {
	unsupp(l.Pos(), x.fx.prog.fset, "indexed assignment is outside the modelled subset")
}
func (x *Exec) starAssign(l *ast.StarExpr, v Val, st *State) {
	unsupp(l.Pos(), x.fx.prog.fset, "assignment through a pointer is outside the modelled subset")
}
func (x *Exec) rangeString(s *ast.RangeStmt, st *State, c VStr, lc *LoopContract, ord int) *Flow {
	unsupp(s.Pos(), x.fx.prog.fset, "range over string is not modelled yet")
	return nil
}
func (x *Exec) rangeOther(s *ast.RangeStmt, st *State, coll Val, lc *LoopContract, ord int) *Flow {
	unsupp(s.Pos(), x.fx.prog.fset, fmt.Sprintf("range over %T is not modelled", coll))
	return nil
}

func (p *Prog) replayKnown(o checkOpts, f KnownFinding) (bool, string) {
	return true, "replay not built yet"
}
func (p *Prog) replayLemmaWitness(o checkOpts, lr *LemmaResult) (bool, string) {
	return false, "replay not built yet"
}
func (p *Prog) replayModel(o checkOpts, ob *Obligation) (bool, string) {
	return false, "replay not built yet"
}
