package main

// Package-level tables and variables: extracted from the real declarations on every run.

import (
	"fmt"
	"go/ast"
	"go/constant"
	"go/token"
	"go/types"
	"strings"
	"unicode"
)

// VArrLit is a package-level array/slice composite literal indexed by an integer.
type VArrLit struct {
	Lit  *ast.CompositeLit
	Info *types.Info
	Len  int64
	Elem types.Type
}

// VMapTab is a package-level map composite literal (possibly a nested inner map under guards).
type VMapTab struct {
	Cases []mapCase
	Info  *types.Info
	Type  *types.Map
}
type mapCase struct {
	Guard Term
	Lit   *ast.CompositeLit
}

// VRegex is a package-level *regexp.Regexp compiled from a constant pattern.
type VRegex struct {
	Var     string
	Pattern string
	Param   bool // an unknown regexp received as a parameter
}

type globalInfo struct {
	spec  *ast.ValueSpec
	index int
	info  *types.Info
	pkg   *types.Package
}

func (p *Prog) findGlobal(obj *types.Var) *globalInfo {
	for _, pk := range p.pkgs {
		if pk.Types != obj.Pkg() {
			continue
		}
		for _, f := range pk.Syntax {
			for _, d := range f.Decls {
				gd, ok := d.(*ast.GenDecl)
				if !ok || gd.Tok != token.VAR {
					continue
				}
				for _, s := range gd.Specs {
					vs := s.(*ast.ValueSpec)
					for i, n := range vs.Names {
						if pk.TypesInfo.Defs[n] == obj {
							return &globalInfo{vs, i, pk.TypesInfo, pk.Types}
						}
					}
				}
			}
		}
	}
	return nil
}

// globalWrites lists the positions where a package-level variable is assigned or has its address
// taken outside its declaration. initOnly reports whether all of them are inside func init.
func (p *Prog) globalWrites(obj *types.Var) (inInit []*ast.AssignStmt, other []string) {
	for _, pk := range p.pkgs {
		if pk.Types != obj.Pkg() {
			continue
		}
		for _, f := range pk.Syntax {
			if strings.HasSuffix(p.fset.Position(f.Pos()).Filename, "_test.go") {
				continue
			}
			for _, d := range f.Decls {
				fd, ok := d.(*ast.FuncDecl)
				if !ok || fd.Body == nil {
					continue
				}
				isInit := fd.Recv == nil && fd.Name.Name == "init"
				ast.Inspect(fd.Body, func(n ast.Node) bool {
					switch s := n.(type) {
					case *ast.AssignStmt:
						for _, l := range s.Lhs {
							if rootObj(l, pk.TypesInfo) == obj {
								if isInit {
									inInit = append(inInit, s)
								} else {
									other = append(other, p.fset.Position(s.Pos()).String())
								}
							}
						}
					case *ast.IncDecStmt:
						if rootObj(s.X, pk.TypesInfo) == obj {
							other = append(other, p.fset.Position(s.Pos()).String())
						}
					case *ast.UnaryExpr:
						if s.Op == token.AND && rootObj(s.X, pk.TypesInfo) == obj {
							other = append(other, p.fset.Position(s.Pos()).String())
						}
					}
					return true
				})
			}
		}
	}
	return
}

func rootObj(x ast.Expr, info *types.Info) types.Object {
	for {
		switch y := x.(type) {
		case *ast.Ident:
			if o := info.Uses[y]; o != nil {
				return o
			}
			return info.Defs[y]
		case *ast.IndexExpr:
			x = y.X
		case *ast.SelectorExpr:
			x = y.X
		case *ast.ParenExpr:
			x = y.X
		case *ast.StarExpr:
			x = y.X
		case *ast.SliceExpr:
			x = y.X
		default:
			return nil
		}
	}
}

func (fx *FuncCtx) globalVal(obj *types.Var, e *Ev) Val {
	if fx.globals == nil {
		fx.globals = map[*types.Var]Val{}
	}
	if v, ok := fx.globals[obj]; ok {
		return v
	}
	v := fx.globalVal1(obj, e)
	fx.globals[obj] = v
	return v
}

func (fx *FuncCtx) globalVal1(obj *types.Var, e *Ev) Val {
	p := fx.prog
	gi := p.findGlobal(obj)
	if gi == nil {
		panic(unsupported{"package-level variable " + obj.Name() + " not found"})
	}
	inInit, other := p.globalWrites(obj)
	if len(other) > 0 {
		panic(unsupported{fmt.Sprintf("package-level variable %s is written outside init (%s); it cannot be treated as a table", obj.Name(), other[0])})
	}
	var init ast.Expr
	if gi.index < len(gi.spec.Values) {
		init = gi.spec.Values[gi.index]
	}
	t := obj.Type()
	if isErrorLike(t) && init != nil {
		// a package-level error value: a fixed non-nil identity below 1000
		return VErr{fmt.Sprintf("%d", p.globalErrID(obj.Name()))}
	}
	// fixed-size bool/int array filled in init()
	if at, ok := t.Underlying().(*types.Array); ok && init == nil {
		if b, ok := at.Elem().Underlying().(*types.Basic); ok && b.Info()&types.IsBoolean != 0 {
			arr := "((as const (Array Int Bool)) false)"
			for _, s := range inInit {
				if len(s.Lhs) != 1 || len(s.Rhs) != 1 || s.Tok != token.ASSIGN {
					panic(unsupported{"unsupported init assignment to " + obj.Name()})
				}
				ix, ok := s.Lhs[0].(*ast.IndexExpr)
				if !ok {
					panic(unsupported{"unsupported init assignment to " + obj.Name()})
				}
				kv := gi.info.Types[ix.Index].Value
				vv := gi.info.Types[s.Rhs[0]].Value
				if kv == nil || vv == nil {
					panic(unsupported{"non-constant init assignment to " + obj.Name()})
				}
				k, _ := constant.Int64Val(kv)
				arr = fmt.Sprintf("(store %s %d %v)", arr, k, constant.BoolVal(vv))
			}
			return VArr{fx.name(sortArrBool, "g_"+obj.Name(), arr), true}
		}
	}
	if len(inInit) > 0 {
		panic(unsupported{"package-level variable " + obj.Name() + " is both initialised and assigned in init"})
	}
	if init == nil {
		panic(unsupported{"package-level variable " + obj.Name() + " has no initialiser"})
	}
	// constant-foldable conversion such as []byte("...")
	if call, ok := init.(*ast.CallExpr); ok {
		if tv, ok := gi.info.Types[call.Fun]; ok && tv.IsType() && len(call.Args) == 1 {
			if av := gi.info.Types[call.Args[0]].Value; av != nil && av.Kind() == constant.String {
				return fx.strLit(constant.StringVal(av))
			}
		}
		// regexp.MustCompile(const)
		if sel, ok := call.Fun.(*ast.SelectorExpr); ok && sel.Sel.Name == "MustCompile" {
			if id, ok := sel.X.(*ast.Ident); ok {
				if pn, ok := gi.info.Uses[id].(*types.PkgName); ok && pn.Imported().Path() == "regexp" {
					av := gi.info.Types[call.Args[0]].Value
					if av == nil {
						panic(unsupported{"regexp pattern of " + obj.Name() + " is not constant"})
					}
					return VRegex{Var: obj.Name(), Pattern: constant.StringVal(av)}
				}
			}
		}
	}
	if rt, ok := fx.rangeTableOf(init, gi.info, obj.Name()); ok {
		return rt
	}
	if cl, ok := init.(*ast.CompositeLit); ok {
		switch u := t.Underlying().(type) {
		case *types.Map:
			return VMapTab{Cases: []mapCase{{"true", cl}}, Info: gi.info, Type: u}
		case *types.Array:
			if _, isFunc := u.Elem().Underlying().(*types.Signature); isFunc {
				keys := make([]string, u.Len())
				idx := int64(0)
				for _, el := range cl.Elts {
					v := el
					if kv, ok := el.(*ast.KeyValueExpr); ok {
						k, _ := constant.Int64Val(gi.info.Types[kv.Key].Value)
						idx = k
						v = kv.Value
					}
					fn, ok := gi.info.Uses[v.(*ast.Ident)].(*types.Func)
					if !ok {
						panic(unsupported{"function table entry is not a function"})
					}
					keys[idx] = funcKey(fn)
					idx++
				}
				return VFuncTable{keys}
			}
			return VArrLit{cl, gi.info, u.Len(), u.Elem()}
		case *types.Slice:
			return VArrLit{cl, gi.info, int64(len(cl.Elts)), u.Elem()}
		}
	}
	if tv, ok := gi.info.Types[init]; ok && tv.Value != nil {
		return constVal(tv.Value, tv.Type, fx)
	}
	panic(unsupported{"package-level variable " + obj.Name() + " has an initialiser that is not modelled"})
}

func (fx *FuncCtx) externVar(obj *types.Var, e *Ev) Val {
	if obj.Pkg().Path() == "unicode" {
		if rt := stdRangeTable(obj.Name()); rt != nil {
			return tableRanges("unicode."+obj.Name(), rt)
		}
	}
	panic(unsupported{"external variable " + obj.Pkg().Path() + "." + obj.Name() + " is not modelled"})
}

func stdRangeTable(name string) *unicode.RangeTable {
	switch name {
	case "Noncharacter_Code_Point":
		return unicode.Noncharacter_Code_Point
	case "Cc":
		return unicode.Cc
	}
	return nil
}

func tableRanges(name string, rt *unicode.RangeTable) VRangeTable {
	v := VRangeTable{Name: name}
	for _, r := range rt.R16 {
		if r.Stride != 1 {
			for c := int64(r.Lo); c <= int64(r.Hi); c += int64(r.Stride) {
				v.Ranges = append(v.Ranges, [2]int64{c, c})
			}
			continue
		}
		v.Ranges = append(v.Ranges, [2]int64{int64(r.Lo), int64(r.Hi)})
	}
	for _, r := range rt.R32 {
		if r.Stride != 1 {
			for c := int64(r.Lo); c <= int64(r.Hi); c += int64(r.Stride) {
				v.Ranges = append(v.Ranges, [2]int64{c, c})
			}
			continue
		}
		v.Ranges = append(v.Ranges, [2]int64{int64(r.Lo), int64(r.Hi)})
	}
	return v
}

// rangeTableOf evaluates a *unicode.RangeTable initialiser: a composite literal (R16/R32 with
// constant bounds, stride 1), a unicode table, or rangetable.Merge of such values (union).
func (fx *FuncCtx) rangeTableOf(x ast.Expr, info *types.Info, name string) (VRangeTable, bool) {
	switch y := x.(type) {
	case *ast.UnaryExpr:
		if y.Op == token.AND {
			return fx.rangeTableOf(y.X, info, name)
		}
	case *ast.CompositeLit:
		t := info.TypeOf(y)
		n, ok := t.(*types.Named)
		if !ok || n.Obj().Name() != "RangeTable" {
			return VRangeTable{}, false
		}
		v := VRangeTable{Name: name}
		for _, el := range y.Elts {
			kv, ok := el.(*ast.KeyValueExpr)
			if !ok {
				panic(unsupported{"range table literal without field names"})
			}
			fn := kv.Key.(*ast.Ident).Name
			if fn != "R16" && fn != "R32" {
				continue // LatinOffset is a search hint that unicode.Is does not consult
			}
			for _, re := range kv.Value.(*ast.CompositeLit).Elts {
				rl := re.(*ast.CompositeLit)
				var nums []int64
				for _, ne := range rl.Elts {
					val := ne
					if kv2, ok := ne.(*ast.KeyValueExpr); ok {
						val = kv2.Value
					}
					tv := info.Types[val]
					if tv.Value == nil {
						panic(unsupported{"non-constant range bound"})
					}
					k, _ := constant.Int64Val(tv.Value)
					nums = append(nums, k)
				}
				if len(nums) != 3 || nums[2] != 1 {
					panic(unsupported{"range with stride other than 1"})
				}
				v.Ranges = append(v.Ranges, [2]int64{nums[0], nums[1]})
			}
		}
		return v, true
	case *ast.SelectorExpr:
		if id, ok := y.X.(*ast.Ident); ok {
			if pn, ok := info.Uses[id].(*types.PkgName); ok && pn.Imported().Path() == "unicode" {
				if rt := stdRangeTable(y.Sel.Name); rt != nil {
					return tableRanges("unicode."+y.Sel.Name, rt), true
				}
			}
		}
	case *ast.Ident:
		if vo, ok := info.Uses[y].(*types.Var); ok && vo.Parent() == vo.Pkg().Scope() {
			if rt, ok := fx.globalVal(vo, nil).(VRangeTable); ok {
				return rt, true
			}
		}
	case *ast.CallExpr:
		if sel, ok := y.Fun.(*ast.SelectorExpr); ok && sel.Sel.Name == "Merge" {
			if id, ok := sel.X.(*ast.Ident); ok {
				if pn, ok := info.Uses[id].(*types.PkgName); ok && strings.HasSuffix(pn.Imported().Path(), "unicode/rangetable") {
					v := VRangeTable{Name: name}
					for _, a := range y.Args {
						rt, ok := fx.rangeTableOf(a, info, name)
						if !ok {
							panic(unsupported{"rangetable.Merge of a table that is not modelled"})
						}
						v.Ranges = append(v.Ranges, rt.Ranges...)
					}
					return v, true
				}
			}
		}
	}
	return VRangeTable{}, false
}

// constExprVal evaluates a table element (constant expression, struct literal of constants, ident).
func (e *Ev) tableElem(x ast.Expr, info *types.Info, t types.Type) Val {
	if tv, ok := info.Types[x]; ok && tv.Value != nil {
		return constVal(tv.Value, tv.Type, e.fx)
	}
	switch y := x.(type) {
	case *ast.CompositeLit:
		if st, ok := t.Underlying().(*types.Struct); ok {
			v := cloneStruct(e.fx.zero(t).(VStruct))
			for i, el := range y.Elts {
				if kv, ok := el.(*ast.KeyValueExpr); ok {
					fn := kv.Key.(*ast.Ident).Name
					v.F[fn] = e.tableElem(kv.Value, info, st.Field(fieldIndex(st, fn)).Type())
				} else {
					v.F[st.Field(i).Name()] = e.tableElem(el, info, st.Field(i).Type())
				}
			}
			return v
		}
	case *ast.Ident:
		if fn, ok := info.Uses[y].(*types.Func); ok {
			return VFuncRef{funcKey(fn)}
		}
	}
	panic(unsupported{fmt.Sprintf("table element %s is not a constant", exprString(x))})
}

func (e *Ev) arrLitIndex(a VArrLit, i Term, n ast.Node) Val {
	type ent struct {
		k int64
		v Val
	}
	var ents []ent
	idx := int64(0)
	for _, el := range a.Lit.Elts {
		v := el
		if kv, ok := el.(*ast.KeyValueExpr); ok {
			k, _ := constant.Int64Val(a.Info.Types[kv.Key].Value)
			idx = k
			v = kv.Value
		}
		ents = append(ents, ent{idx, e.tableElem(v, a.Info, a.Elem)})
		idx++
	}
	acc := e.fx.zero(a.Elem)
	for j := len(ents) - 1; j >= 0; j-- {
		acc = e.fx.iteVal(sEq(i, fmt.Sprintf("%d", ents[j].k)), ents[j].v, acc)
	}
	return acc
}

// mapLitLookup on the old-style VMapLit is unused; VMapTab is the live representation.
func (e *Ev) mapLitLookup(m VMapLit, key Val, n ast.Node) (Val, Term) {
	e.unsupp(n, "VMapLit lookup")
	return nil, ""
}

func (e *Ev) keyEq(key Val, k ast.Expr, info *types.Info) Term {
	kv := info.Types[k].Value
	if kv == nil {
		panic(unsupported{"map literal key is not constant"})
	}
	switch a := key.(type) {
	case VStr:
		return e.strEq(a, e.fx.strLitNoDecl(constant.StringVal(kv)))
	case VInt:
		n, _ := constant.Int64Val(kv)
		return sEq(a.T, sInt(n))
	}
	panic(unsupported{fmt.Sprintf("map key of kind %T", key)})
}

// strLitNoDecl is a literal view used only for comparisons (no array is declared).
func (fx *FuncCtx) strLitNoDecl(s string) VStr {
	lit := s
	return VStr{B: "lit!", O: "0", L: fmt.Sprintf("%d", len(s)), Lit: &lit}
}

func (e *Ev) mapTabLookup(m VMapTab, key Val, n ast.Node) (Val, Term) {
	elemT := m.Type.Elem()
	if inner, ok := elemT.Underlying().(*types.Map); ok {
		var cases []mapCase
		for _, c := range m.Cases {
			for _, el := range c.Lit.Elts {
				kv := el.(*ast.KeyValueExpr)
				cond := e.fx.name(sortBool, "mk", sAnd(c.Guard, e.keyEq(key, kv.Key, m.Info)))
				cases = append(cases, mapCase{cond, kv.Value.(*ast.CompositeLit)})
			}
		}
		var oks []Term
		for _, c := range cases {
			oks = append(oks, c.Guard)
		}
		return VMapTab{cases, m.Info, inner}, sOr(oks...)
	}
	type ent struct {
		c Term
		v Val
	}
	var ents []ent
	for _, c := range m.Cases {
		for _, el := range c.Lit.Elts {
			kv := el.(*ast.KeyValueExpr)
			cond := sAnd(c.Guard, e.keyEq(key, kv.Key, m.Info))
			ents = append(ents, ent{cond, e.tableElem(kv.Value, m.Info, elemT)})
		}
	}
	if _, isFunc := elemT.Underlying().(*types.Signature); isFunc {
		var ch VFuncChoice
		var oks []Term
		for _, en := range ents {
			fr, ok := en.v.(VFuncRef)
			if !ok {
				panic(unsupported{"function-valued table entry is not a function"})
			}
			cn := e.fx.name(sortBool, "fk", en.c)
			ch.Conds = append(ch.Conds, cn)
			ch.Keys = append(ch.Keys, fr.Key)
			oks = append(oks, cn)
		}
		return ch, e.fx.name(sortBool, "mok", sOr(oks...))
	}
	acc := e.fx.zero(elemT)
	var oks []Term
	// group equal values to keep the term small
	for j := len(ents) - 1; j >= 0; j-- {
		acc = e.fx.iteValPure2(ents[j].c, ents[j].v, acc)
		oks = append(oks, ents[j].c)
	}
	ok := e.fx.name(sortBool, "mok", sOr(oks...))
	return e.fx.nameVal(acc, "mv"), ok
}

// iteValPure2 is iteVal without naming every node (tables have hundreds of entries).
func (fx *FuncCtx) iteValPure2(c Term, a, b Val) Val {
	switch x := a.(type) {
	case VInt:
		return VInt{sIte(c, x.T, b.(VInt).T)}
	case VBool:
		return VBool{sIte(c, x.T, b.(VBool).T)}
	}
	return fx.iteVal(c, a, b)
}

func (fx *FuncCtx) nameVal(v Val, hint string) Val {
	switch x := v.(type) {
	case VInt:
		return VInt{fx.name(sortInt, hint, x.T)}
	case VBool:
		return VBool{fx.name(sortBool, hint, x.T)}
	}
	return v
}

func (p *Prog) globalErrID(name string) int {
	p.rxMu.Lock()
	defer p.rxMu.Unlock()
	if p.errIDs == nil {
		p.errIDs = map[string]int{}
	}
	if id, ok := p.errIDs[name]; ok {
		return id
	}
	id := len(p.errIDs) + 1
	p.errIDs[name] = id
	return id
}
