#!/usr/bin/env python3
# Regenerates /verif/MANIFEST.json from the table below (keeps it schema-valid at all times).
import json, subprocess, sys

TECH = "contract-based deductive verification: contracts on the real Go functions (comment-only files behind build tag verif), VCs generated from /repo's typed AST by govc (symbolic execution, loops cut at invariants, calls by contract), regular-language lemmas on the real regexp literals with SMT-checked product certificates; discharged by z3 4.8.12 / z3 5.1.0 / cvc5 1.0.3"

CLAIMED = {
 "C11": ("URLSanitized/isSafeURL proved equal to membership in URLAccept = lower^-1(L(safeURLPattern) minus ^javascript:), for all strings; URLAccept proved disjoint from the WHATWG javascript-scheme language, also after character-reference decoding (over-approximated by 'anything after the first &'); converse clause proved as a language inclusion.",
         "Assumed: regexp.MatchString/FindStringSubmatch semantics (regex->DFA translation validated differentially every run), strings.ToLower = rune-wise unicode.ToLower, UTF-8 facts U1-U3. BOUNDED stand-in (not counted as proved): capture group 1 of safeURLPattern equals \"javascript\" iff the lower-cased input starts with \"javascript:\".", "4 C11"),
 "C18": ("Both constructors proved: normal return implies the result is in ^[A-Za-z][-_A-Za-z0-9]*$ (language inclusion on the real patterns, including the concatenation prefix-hyphen-value) and equals prefix ++ \"-\" ++ value.",
         "Assumed: regexp.MatchString semantics ($ is end of text without (?m)), string concatenation model, UTF-8 facts.", "4 C18"),
}

NA = {
 "C09": "quantifies over thread schedules; per-call contracts and the sequential VC generator built here cannot express or decide interleavings (DESIGN.md section 5)",
 "C19": "a statement about which client programs compile and about the exported API surface; not a pre/postcondition of any function (DESIGN.md section 5)",
}
ALL = ["C%02d" % i for i in range(1, 21)]
NOTBUILT = "within the technique's reach per DESIGN.md section 4, but its check is not built yet in this round (no claim is made until the check passes the must-fail corpus)"

def main():
    commits = subprocess.run(["git", "-C", "/repo", "log", "--format=%H %s", "fa244f6..HEAD"], capture_output=True, text=True).stdout.strip().splitlines()
    hook_commits = [c.split()[0] for c in commits if " verif:" in " " + c]
    checks = []
    for pid in ALL:
        if pid in CLAIMED:
            text, note, ref = CLAIMED[pid]
            checks.append({
                "property_id": pid,
                "quick_cmd": "./check %s quick" % pid,
                "thorough_cmd": "./check %s thorough" % pid,
                "evidence_file": "/verif/evidence/%s.json" % pid,
                "replay_cmd_template": "./check --replay {path}",
                "engine": "govc",
                "level_claimed": {"category": "proof", "text": text, "design_ref": "DESIGN.md section " + ref},
                "level_note": note,
                "technique": TECH,
            })
    na = []
    for pid in ALL:
        if pid in CLAIMED:
            continue
        na.append({"property_id": pid, "reason": NA.get(pid, NOTBUILT)})
    m = {
        "version": 1,
        "setup_cmd": "cd /verif/govc && GOFLAGS=-mod=mod GOPROXY=off GOSUMDB=off GOTOOLCHAIN=local go build -o /verif/bin/govc ./cmd/govc",
        "hooks": {
            "guard": "verif",
            "enable": "go build tag 'verif': comment-only contract files zz_contracts_verif.go (no executable code); govc loads /repo with -tags=verif",
            "baseline_off_cmd": "cd /repo && GOFLAGS=-mod=mod GOPROXY=off GOSUMDB=off go test -vet=off -count=1 ./...",
            "source_commits": hook_commits,
            "add_only": True,
        },
        "engines": [{"name": "govc", "path": "/verif/govc", "serves_properties": sorted(CLAIMED), "kind_free_text": "self-written deductive verifier for a Go subset: VC generation over go/ast+go/types, SMT back ends; regular-language lemma engine over regexp/syntax"}],
        "checks": checks,
        "notes": "Known findings: /verif/known_findings.json. Design and per-property detail: /verif/DESIGN.md.",
        "not_applicable": na,
    }
    json.dump(m, open("/verif/MANIFEST.json", "w"), indent=1)
    print("claimed:", sorted(CLAIMED))

main()
