package main

// Statement execution: forward symbolic execution with state merging, loops cut at invariants.

import (
	"fmt"
	"go/ast"
	"go/token"
	"go/types"
	"sort"
	"strings"
)

type RetState struct {
	st   *State
	vals []Val
	pos  token.Pos
	ord  int
}

type Flow struct {
	fall *State
	brk  []*State
	cont []*State
	rets []*RetState
}

func (f *Flow) absorb(g *Flow) {
	f.brk = append(f.brk, g.brk...)
	f.cont = append(f.cont, g.cont...)
	f.rets = append(f.rets, g.rets...)
}

type Exec struct {
	fx         *FuncCtx
	info       *types.Info
	nret       int
	sig        *types.Signature // overrides the enclosing function's signature (function literals)
	deferredMu []deferredUnlock
}

func (x *Exec) ev(st *State) *Ev {
	return &Ev{fx: x.fx, st: st, info: x.info, pkg: x.fx.pkg.Types}
}

func (x *Exec) block(list []ast.Stmt, st *State) *Flow {
	out := &Flow{}
	cur := st
	for _, s := range list {
		if cur == nil {
			break // unreachable code
		}
		f := x.stmt(s, cur)
		out.absorb(f)
		cur = f.fall
	}
	out.fall = cur
	return out
}

func (x *Exec) stmt(s ast.Stmt, st *State) *Flow {
	switch s := s.(type) {
	case *ast.BlockStmt:
		return x.block(s.List, st)
	case *ast.EmptyStmt:
		return &Flow{fall: st}
	case *ast.ExprStmt:
		if call, ok := s.X.(*ast.CallExpr); ok {
			if id, ok := unparen(call.Fun).(*ast.Ident); ok {
				if b, ok := x.info.Uses[id].(*types.Builtin); ok && b.Name() == "panic" {
					for _, a := range call.Args {
						x.ev(st).evOpaqueArg(a)
					}
					if x.fx.con != nil && x.fx.con.Options["nopanic"] == "true" {
						x.fx.obligeN("panic", "panic", s.Pos(), st.pc, "false", "explicit panic is unreachable")
					}
					return &Flow{}
				}
			}
		}
		if call, ok := s.X.(*ast.CallExpr); ok {
			if id, ok := unparen(call.Fun).(*ast.Ident); ok {
				if b, ok := x.info.Uses[id].(*types.Builtin); ok && b.Name() == "copy" && len(call.Args) == 2 {
					x.copyRefs(call, st)
					return &Flow{fall: st}
				}
			}
		}
		x.ev(st).ev(s.X)
		return &Flow{fall: st}
	case *ast.AssignStmt:
		x.assign(s, st)
		return &Flow{fall: st}
	case *ast.IncDecStmt:
		e := x.ev(st)
		v := e.ev(s.X)
		op := token.ADD
		if s.Tok == token.DEC {
			op = token.SUB
		}
		nv := e.binopTyped(op, v, VInt{"1"}, s, e.typeOf(s.X))
		x.assignTo(s.X, nv, st, false)
		return &Flow{fall: st}
	case *ast.DeclStmt:
		gd := s.Decl.(*ast.GenDecl)
		if gd.Tok != token.VAR {
			return &Flow{fall: st}
		}
		for _, sp := range gd.Specs {
			vs := sp.(*ast.ValueSpec)
			if len(vs.Values) == 1 && len(vs.Names) > 1 {
				tv := x.ev(st).ev(vs.Values[0]).(VTuple)
				for i, n := range vs.Names {
					if n.Name != "_" {
						st.env[x.info.Defs[n]] = tv[i]
					}
				}
				continue
			}
			for i, n := range vs.Names {
				obj := x.info.Defs[n]
				if n.Name == "_" || obj == nil {
					continue
				}
				if i < len(vs.Values) {
					e := x.ev(st)
					st.env[obj] = e.coerceTo(e.ev(vs.Values[i]), obj.Type(), vs.Values[i])
				} else {
					st.env[obj] = x.fx.zero(obj.Type())
				}
			}
		}
		return &Flow{fall: st}
	case *ast.ReturnStmt:
		return x.ret(s, st)
	case *ast.IfStmt:
		return x.ifStmt(s, st)
	case *ast.ForStmt:
		return x.forStmt(s, st)
	case *ast.RangeStmt:
		return x.rangeStmt(s, st)
	case *ast.SwitchStmt:
		return x.switchStmt(s, st)
	case *ast.TypeSwitchStmt:
		return x.typeSwitchStmt(s, st)
	case *ast.BranchStmt:
		if s.Label != nil {
			unsupp(s.Pos(), x.fx.prog.fset, "labelled branch")
		}
		switch s.Tok {
		case token.BREAK:
			return &Flow{brk: []*State{st}}
		case token.CONTINUE:
			return &Flow{cont: []*State{st}}
		}
		unsupp(s.Pos(), x.fx.prog.fset, "unsupported branch %s", s.Tok)
	case *ast.DeferStmt:
		return x.deferStmt(s, st)
	}
	unsupp(s.Pos(), x.fx.prog.fset, "unsupported statement %T", s)
	return nil
}

func (e *Ev) binopTyped(op token.Token, l, r Val, n ast.Node, t types.Type) Val {
	v := e.binop(op, l, r, n)
	if iv, ok := v.(VInt); ok && t != nil && !e.contract {
		switch op {
		case token.ADD, token.SUB, token.MUL:
			if b, ok := t.Underlying().(*types.Basic); ok {
				if lo, hi, ok := intRange(b); ok {
					nm := e.fx.name(sortInt, "a", iv.T)
					e.safety("overflow", "overflow", n.Pos(), sAnd(sLe(lo, nm), sLe(nm, hi)), "no "+b.Name()+" overflow")
					return VInt{nm}
				}
			}
		}
	}
	return v
}

func (x *Exec) ret(s *ast.ReturnStmt, st *State) *Flow {
	x.nret++
	r := &RetState{st: st, pos: s.Pos(), ord: x.nret}
	sig := x.fx.obj.Type().(*types.Signature)
	if x.sig != nil {
		sig = x.sig
	}
	e := x.ev(st)
	switch {
	case len(s.Results) == 0:
		for _, o := range x.fx.results {
			r.vals = append(r.vals, st.env[o])
		}
	case len(s.Results) == 1 && sig.Results().Len() > 1:
		tv, ok := e.ev(s.Results[0]).(VTuple)
		if !ok {
			unsupp(s.Pos(), x.fx.prog.fset, "multi-value return from a single expression")
		}
		r.vals = tv
	default:
		for i, re := range s.Results {
			r.vals = append(r.vals, e.coerceTo(e.ev(re), sig.Results().At(i).Type(), re))
		}
	}
	x.runDeferred(st)
	return &Flow{rets: []*RetState{r}}
}

func (x *Exec) ifStmt(s *ast.IfStmt, st *State) *Flow {
	out := &Flow{}
	if s.Init != nil {
		f := x.stmt(s.Init, st)
		out.absorb(f)
		if f.fall == nil {
			return out
		}
		st = f.fall
	}
	e := x.ev(st)
	c := e.boolOf(e.ev(s.Cond), s.Cond)
	cn := x.fx.name(sortBool, "if", c)
	stT := st.clone()
	stT.pc = x.fx.name(sortBool, "pc", sAnd(st.pc, cn))
	stF := st.clone()
	stF.pc = x.fx.name(sortBool, "pc", sAnd(st.pc, sNot(cn)))
	fT := x.block(s.Body.List, stT)
	out.absorb(fT)
	var fallF *State
	if s.Else != nil {
		fF := x.stmt(s.Else, stF)
		out.absorb(fF)
		fallF = fF.fall
	} else {
		fallF = stF
	}
	out.fall = x.fx.mergeScoped([]*State{fT.fall, fallF}, st)
	return out
}

// mergeScoped merges states and keeps only the variables that existed in outer.
func (fx *FuncCtx) mergeScoped(states []*State, outer *State) *State {
	var live []*State
	for _, s := range states {
		if s != nil {
			live = append(live, s)
		}
	}
	if len(live) == 0 {
		return nil
	}
	for _, s := range live {
		for o := range s.env {
			if _, ok := outer.env[o]; !ok {
				delete(s.env, o)
			}
		}
	}
	return fx.mergeStates(live)
}

func (x *Exec) switchStmt(s *ast.SwitchStmt, st *State) *Flow {
	out := &Flow{}
	if s.Init != nil {
		f := x.stmt(s.Init, st)
		out.absorb(f)
		if f.fall == nil {
			return out
		}
		st = f.fall
	}
	var tag Val
	if s.Tag != nil {
		tag = x.ev(st).ev(s.Tag)
	}
	rem := st.clone()
	var falls []*State
	var deflt *ast.CaseClause
	for _, cs := range s.Body.List {
		cc := cs.(*ast.CaseClause)
		if cc.List == nil {
			deflt = cc
			continue
		}
		e := x.ev(rem)
		var conds []Term
		for _, ce := range cc.List {
			v := e.ev(ce)
			if tag != nil {
				conds = append(conds, e.boolOf(e.binop(token.EQL, tag, v, ce), ce))
			} else {
				conds = append(conds, e.boolOf(v, ce))
			}
		}
		c := x.fx.name(sortBool, "case", sOr(conds...))
		stC := st.clone()
		stC.pc = x.fx.name(sortBool, "pc", sAnd(rem.pc, c))
		for _, b := range cc.Body {
			if br, ok := b.(*ast.BranchStmt); ok && br.Tok == token.FALLTHROUGH {
				unsupp(br.Pos(), x.fx.prog.fset, "fallthrough")
			}
		}
		f := x.block(cc.Body, stC)
		out.cont = append(out.cont, f.cont...)
		out.rets = append(out.rets, f.rets...)
		falls = append(falls, f.fall)
		falls = append(falls, f.brk...)
		rem.pc = x.fx.name(sortBool, "pc", sAnd(rem.pc, sNot(c)))
	}
	if deflt != nil {
		stD := st.clone()
		stD.pc = rem.pc
		f := x.block(deflt.Body, stD)
		out.cont = append(out.cont, f.cont...)
		out.rets = append(out.rets, f.rets...)
		falls = append(falls, f.fall)
		falls = append(falls, f.brk...)
	} else {
		stD := st.clone()
		stD.pc = rem.pc
		falls = append(falls, stD)
	}
	out.fall = x.fx.mergeScoped(falls, st)
	return out
}

func (x *Exec) typeSwitchStmt(s *ast.TypeSwitchStmt, st *State) *Flow {
	out := &Flow{}
	if s.Init != nil {
		f := x.stmt(s.Init, st)
		out.absorb(f)
		st = f.fall
	}
	var subject ast.Expr
	switch a := s.Assign.(type) {
	case *ast.AssignStmt:
		subject = a.Rhs[0].(*ast.TypeAssertExpr).X
	case *ast.ExprStmt:
		subject = a.X.(*ast.TypeAssertExpr).X
	}
	e0 := x.ev(st)
	subjV := e0.ev(subject)
	var rv VRef
	isRef := false
	if r, ok := subjV.(VRef); ok && strings.HasPrefix(r.Elem, "iface:") {
		// a modelled interface value (parse.Node): cases test the uninterpreted dynamic type
		rv, isRef = r, true
		x.fx.specUsed["dyntype"] = true
		x.fx.trusted["interface values of text/template/parse.Node never hold a typed nil pointer; their dynamic type is a function of the reference (assumed)"] = true
	}
	iv, ok := subjV.(VIface)
	if !ok && !isRef {
		unsupp(s.Pos(), x.fx.prog.fset, fmt.Sprintf("type switch on a non-interface model (%T %v)", subjV, subjV))
	}
	rem := st.clone()
	var falls []*State
	var deflt *ast.CaseClause
	for _, cs := range s.Body.List {
		cc := cs.(*ast.CaseClause)
		if cc.List == nil {
			deflt = cc
			continue
		}
		var conds []Term
		var single types.Type
		for _, te := range cc.List {
			t := x.info.TypeOf(te)
			single = t
			if isRef {
				en, ok := elemName(t)
				if !ok {
					unsupp(te.Pos(), x.fx.prog.fset, "type switch case %s on a parse.Node", t)
				}
				conds = append(conds, sAnd(sNot(sEq(rv.T, "0")), sEq("(dyntype "+rv.T+")", fmt.Sprintf("%d", typeID(en)))))
				continue
			}
			if name, ok := isSafehtmlNamed(t); ok {
				conds = append(conds, sEq(iv.Tag, fmt.Sprintf("%d", safeTypeTags[name])))
			} else if types.Identical(t, types.Typ[types.String]) {
				conds = append(conds, sEq(iv.Tag, fmt.Sprintf("%d", tagString)))
			} else {
				unsupp(te.Pos(), x.fx.prog.fset, "type switch case %s", t)
			}
		}
		c := x.fx.name(sortBool, "tcase", sOr(conds...))
		stC := st.clone()
		stC.pc = x.fx.name(sortBool, "pc", sAnd(rem.pc, c))
		if obj := x.info.Implicits[cc]; obj != nil && isRef {
			if len(cc.List) == 1 {
				en, _ := elemName(single)
				stC.env[obj] = VRef{rv.T, en}
			} else {
				stC.env[obj] = rv
			}
		} else if obj != nil {
			if len(cc.List) == 1 {
				if name, ok := isSafehtmlNamed(single); ok {
					stC.env[obj] = VStruct{TName: name, Names: []string{"str"}, F: map[string]Val{"str": iv.S}}
				} else {
					stC.env[obj] = iv.S
				}
			} else {
				stC.env[obj] = iv
			}
		}
		f := x.block(cc.Body, stC)
		out.cont = append(out.cont, f.cont...)
		out.rets = append(out.rets, f.rets...)
		falls = append(falls, f.fall)
		falls = append(falls, f.brk...)
		rem.pc = x.fx.name(sortBool, "pc", sAnd(rem.pc, sNot(c)))
	}
	stD := st.clone()
	stD.pc = rem.pc
	if deflt != nil {
		if obj := x.info.Implicits[deflt]; obj != nil {
			if isRef {
				stD.env[obj] = rv
			} else {
				stD.env[obj] = iv
			}
		}
		f := x.block(deflt.Body, stD)
		out.cont = append(out.cont, f.cont...)
		out.rets = append(out.rets, f.rets...)
		falls = append(falls, f.fall)
		falls = append(falls, f.brk...)
	} else {
		falls = append(falls, stD)
	}
	out.fall = x.fx.mergeScoped(falls, st)
	return out
}

// ---------------------------------------------------------------------------
// assignment

func (x *Exec) assign(s *ast.AssignStmt, st *State) {
	e := x.ev(st)
	define := s.Tok == token.DEFINE
	if s.Tok != token.ASSIGN && s.Tok != token.DEFINE {
		// op-assign
		var op token.Token
		switch s.Tok {
		case token.ADD_ASSIGN:
			op = token.ADD
		case token.SUB_ASSIGN:
			op = token.SUB
		case token.MUL_ASSIGN:
			op = token.MUL
		default:
			unsupp(s.Pos(), x.fx.prog.fset, "assignment operator %s", s.Tok)
		}
		l := e.ev(s.Lhs[0])
		r := e.ev(s.Rhs[0])
		x.assignTo(s.Lhs[0], e.binopTyped(op, l, r, s, e.typeOf(s.Lhs[0])), st, false)
		return
	}
	if len(s.Lhs) > 1 && len(s.Rhs) == 1 {
		var tv VTuple
		switch r := unparen(s.Rhs[0]).(type) {
		case *ast.IndexExpr:
			tv = e.evIndex(r, true).(VTuple)
		case *ast.TypeAssertExpr:
			tv = e.evTypeAssert(r, true).(VTuple)
		default:
			v := e.ev(s.Rhs[0])
			t, ok := v.(VTuple)
			if !ok {
				unsupp(s.Pos(), x.fx.prog.fset, "tuple assignment from %T", v)
			}
			tv = t
		}
		if len(tv) != len(s.Lhs) {
			unsupp(s.Pos(), x.fx.prog.fset, "tuple arity mismatch")
		}
		for i, l := range s.Lhs {
			x.assignTo(l, tv[i], st, define)
		}
		return
	}
	var vals []Val
	for i, r := range s.Rhs {
		v := e.ev(r)
		if t := x.lhsType(s.Lhs[i]); t != nil {
			v = e.coerceTo(v, t, r)
		}
		vals = append(vals, v)
	}
	for i, l := range s.Lhs {
		x.assignTo(l, vals[i], st, define)
	}
}

func (x *Exec) lhsType(l ast.Expr) types.Type {
	if id, ok := l.(*ast.Ident); ok {
		if id.Name == "_" {
			return nil
		}
		if o := x.info.Defs[id]; o != nil {
			return o.Type()
		}
		if o := x.info.Uses[id]; o != nil {
			return o.Type()
		}
		return nil
	}
	return x.info.TypeOf(l)
}

func (x *Exec) assignTo(l ast.Expr, v Val, st *State, define bool) {
	switch l := unparen(l).(type) {
	case *ast.Ident:
		if l.Name == "_" {
			return
		}
		obj := x.info.Defs[l]
		if obj == nil {
			obj = x.info.Uses[l]
		}
		if obj == nil {
			unsupp(l.Pos(), x.fx.prog.fset, "unresolved assignment target %s", l.Name)
		}
		if vv, ok := obj.(*types.Var); ok && vv.Parent() == vv.Pkg().Scope() {
			unsupp(l.Pos(), x.fx.prog.fset, "assignment to package-level variable %s", l.Name)
		}
		st.env[obj] = v
		return
	case *ast.SelectorExpr:
		// field update of a struct variable (by value) or of a heap object
		base := x.ev(st).ev(l.X)
		switch b := base.(type) {
		case VStruct:
			nb := cloneStruct(b)
			if _, ok := nb.F[l.Sel.Name]; !ok {
				unsupp(l.Pos(), x.fx.prog.fset, "no field %s", l.Sel.Name)
			}
			nb.F[l.Sel.Name] = v
			x.assignTo(l.X, nb, st, false)
			return
		case VRef:
			if x.fx.prog.fieldType(b.Elem, l.Sel.Name) == nil {
				if inner, ok := x.embeddedHolder(b, l.Sel.Name, st); ok {
					x.heapWrite(inner, l.Sel.Name, v, st, l)
					return
				}
			}
			x.heapWrite(b, l.Sel.Name, v, st, l)
			return
		case VSub:
			ft := x.fx.prog.fieldType(b.Elem, b.Path+"."+l.Sel.Name)
			if ft == nil {
				unsupp(l.Pos(), x.fx.prog.fset, "no modelled field %s.%s.%s", b.Elem, b.Path, l.Sel.Name)
			}
			x.fx.writeField(st, b.Ref, b.Elem, b.Path+"."+l.Sel.Name, ft, v, l)
			return
		case VErr:
			// Name, Line, Description of *Error only feed the message text
			return
		}
		unsupp(l.Pos(), x.fx.prog.fset, "assignment to a field of %T", base)
	case *ast.IndexExpr:
		x.indexAssign(l, v, st)
		return
	case *ast.StarExpr:
		x.starAssign(l, v, st)
		return
	}
	unsupp(l.Pos(), x.fx.prog.fset, "unsupported assignment target %T", l)
}

// ---------------------------------------------------------------------------
// loops

func (x *Exec) modified(nodes []ast.Node, st *State) []types.Object {
	seen := map[types.Object]bool{}
	mark := func(e ast.Expr) {
		if o := rootObj(e, x.info); o != nil {
			if v, ok := st.env[o]; ok {
				if _, direct := unparen(e).(*ast.Ident); !direct {
					// writing through a reference changes the heap, not the variable
					switch v.(type) {
					case VMapRef, VRef, VSub:
						return
					}
				}
				seen[o] = true
			}
		}
	}
	for _, n := range nodes {
		if n == nil {
			continue
		}
		ast.Inspect(n, func(n ast.Node) bool {
			switch s := n.(type) {
			case *ast.AssignStmt:
				for _, l := range s.Lhs {
					if ix, ok := unparen(l).(*ast.IndexExpr); ok {
						if t := x.info.TypeOf(ix.X); t != nil {
							if _, isMap := t.Underlying().(*types.Map); isMap {
								continue // a map store changes the map object, not the variable that holds it
							}
						}
					}
					mark(l)
				}
			case *ast.IncDecStmt:
				mark(s.X)
			case *ast.UnaryExpr:
				if s.Op == token.AND {
					mark(s.X)
				}
			case *ast.CallExpr:
				if sel, ok := unparen(s.Fun).(*ast.SelectorExpr); ok {
					if selx, ok := x.info.Selections[sel]; ok && selx.Kind() == types.MethodVal {
						if fn, ok := selx.Obj().(*types.Func); ok {
							if sig := fn.Type().(*types.Signature); sig.Recv() != nil {
								if _, isPtr := sig.Recv().Type().(*types.Pointer); isPtr {
									// a method called on a reference variable changes the heap (the
									// callee's modifies clause), never the variable itself
									if o := rootObj(sel.X, x.info); o != nil {
										switch st.env[o].(type) {
										case VRef, VSub:
											return true
										}
									}
									mark(sel.X)
								}
							}
						}
					}
				}
				// pointer-typed variables passed to calls may be written through
				for _, a := range s.Args {
					if id, ok := unparen(a).(*ast.Ident); ok {
						if o := x.info.Uses[id]; o != nil {
							if v, ok := st.env[o]; ok {
								switch v.(type) {
								case VBuf, VBufPtr:
									seen[o] = true
								}
							}
						}
					}
				}
			case *ast.RangeStmt:
				if s.Key != nil {
					mark(s.Key)
				}
				if s.Value != nil {
					mark(s.Value)
				}
			}
			return true
		})
	}
	var out []types.Object
	for o := range seen {
		out = append(out, o)
	}
	sort.Slice(out, func(i, j int) bool { return out[i].Pos() < out[j].Pos() })
	return out
}

type loopSpec struct {
	node     ast.Node
	ord      int
	lc       *LoopContract
	bodyPos  token.Pos
	autoInv  func(st *State) Term // structural invariant (range loops)
	autoDec  func(st *State) Term // structural variant (range loops)
	guard    func(st *State) Term
	pre      func(st *State) // runs at the start of each iteration (range value binding)
	post     func(st *State) *Flow
	body     []ast.Stmt
	modExtra []types.Object
	modNodes []ast.Node
}

func (x *Exec) loop(ls *loopSpec, st *State) *Flow {
	fx := x.fx
	out := &Flow{}
	entrySt := st.clone()
	entryEv := fx.clauseEv(entrySt, ls.bodyPos, nil)
	fx.loopEntry = append(fx.loopEntry, entryEv)
	defer func() { fx.loopEntry = fx.loopEntry[:len(fx.loopEntry)-1] }()
	lname := fmt.Sprintf("loop%d", ls.ord)
	var invs []*Clause
	var dec *Clause
	if ls.lc != nil {
		invs = ls.lc.Invariants
		dec = ls.lc.Decreases
	}
	// 1. invariants hold on entry
	for i, inv := range invs {
		lbl := inv.Label
		if lbl == "" {
			lbl = fmt.Sprintf("inv%d", i+1)
		}
		ce := fx.clauseEv(st, ls.bodyPos, nil)
		t := ce.boolOf(ce.ev(inv.Expr), inv.Expr)
		fx.oblige("inv-init", lname+".init."+lbl, ls.node.Pos(), st.pc, t, "loop invariant holds on entry: "+inv.Text)
	}
	// 2. havoc
	head := st.clone()
	head.pc = fx.declare(sortBool, "pc_"+lname)
	fx.emit("(assert " + sImp(head.pc, st.pc) + ")")
	mods := x.modified(ls.modNodes, st)
	mods = append(mods, ls.modExtra...)
	for _, o := range mods {
		if cur, ok := head.env[o]; ok {
			head.env[o] = fx.havocLike(cur, o)
		}
	}
	havocked := x.havocHeapLoop(ls, head)
	// 3. assume invariants
	if ls.autoInv != nil {
		fx.assume(head.pc, ls.autoInv(head))
	}
	for _, inv := range invs {
		ce := fx.clauseEv(head, ls.bodyPos, nil)
		fx.assume(head.pc, ce.boolOf(ce.ev(inv.Expr), inv.Expr))
	}
	var d0 Term
	if dec != nil {
		ce := fx.clauseEv(head, ls.bodyPos, nil)
		d0 = fx.name(sortInt, "dec", ce.intOf(ce.ev(dec.Expr), dec.Expr))
	} else if ls.autoDec != nil {
		d0 = fx.name(sortInt, "dec", ls.autoDec(head))
	}
	// 4. guard
	g := "true"
	if ls.guard != nil {
		g = fx.name(sortBool, "guard", ls.guard(head))
	}
	body := head.clone()
	body.pc = fx.name(sortBool, "pc", sAnd(head.pc, g))
	exit := head.clone()
	exit.pc = fx.name(sortBool, "pc", sAnd(head.pc, sNot(g)))
	if ls.pre != nil {
		ls.pre(body)
	}
	f := x.block(ls.body, body)
	out.rets = append(out.rets, f.rets...)
	// the body may only have written heap locations that were havocked at the head
	for _, after := range append(append([]*State{f.fall}, f.cont...), f.brk...) {
		if after == nil {
			continue
		}
		for k, t := range after.heap {
			if k == "$alloc" || havocked[k] {
				continue
			}
			if ht, ok := head.heap[k]; !ok || ht != t {
				if !ok && t == fx.heapInit[k] {
					continue
				}
				panic(unsupported{fmt.Sprintf("loop %d writes heap location %s, which the loop head did not havoc (engine limitation)", ls.ord, k)})
			}
		}
	}
	// every back edge is checked separately (no merged ite terms under the quantifiers)
	var edges []*State
	if f.fall != nil {
		edges = append(edges, f.fall)
	}
	edges = append(edges, f.cont...)
	for ei, back := range edges {
		hsuffix := ""
		if len(edges) > 1 {
			hsuffix = fmt.Sprintf("@edge%d", ei+1)
		}
		if ls.lc != nil {
			// a hint that names a variable declared in the body is stated at the end of the body
			// (before the post statement); the others are stated on the back edge proper (below)
			for hi, h := range ls.lc.Hints {
				if !x.namesBodyLocal(h.Expr, ls) {
					continue
				}
				lbl := h.Label
				if lbl == "" {
					lbl = fmt.Sprintf("hint%d", hi+1)
				}
				ce := fx.clauseEv(back, ls.node.End()-1, nil)
				ce.beforeEv = fx.clauseEv(head, ls.bodyPos, nil)
				t := ce.boolOf(ce.ev(h.Expr), h.Expr)
				fx.obligeSplit("hint", lname+".hint."+lbl+hsuffix, ls.node.Pos(), back.pc, t, "proof hint: "+h.Text)
				fx.assume(back.pc, t)
			}
		}
		for o := range back.env {
			if _, ok := head.env[o]; !ok {
				delete(back.env, o)
			}
		}
		if ls.post != nil {
			pf := ls.post(back)
			back = pf.fall
		}
		if back == nil {
			continue
		}
		suffix := ""
		if len(edges) > 1 {
			suffix = fmt.Sprintf("@edge%d", ei+1)
		}
		if ls.lc != nil {
			for hi, h := range ls.lc.Hints {
				if x.namesBodyLocal(h.Expr, ls) {
					continue
				}
				lbl := h.Label
				if lbl == "" {
					lbl = fmt.Sprintf("hint%d", hi+1)
				}
				ce := fx.clauseEv(back, ls.bodyPos, nil)
				ce.beforeEv = fx.clauseEv(head, ls.bodyPos, nil)
				t := ce.boolOf(ce.ev(h.Expr), h.Expr)
				fx.obligeSplit("hint", lname+".hint."+lbl+suffix, ls.node.Pos(), back.pc, t, "proof hint: "+h.Text)
				fx.assume(back.pc, t)
			}
		}
		for i, inv := range invs {
			lbl := inv.Label
			if lbl == "" {
				lbl = fmt.Sprintf("inv%d", i+1)
			}
			ce := fx.clauseEv(back, ls.bodyPos, nil)
			t := ce.boolOf(ce.ev(inv.Expr), inv.Expr)
			fx.obligeSplit("inv-pres", lname+".pres."+lbl+suffix, ls.node.Pos(), back.pc, t, "loop invariant is preserved: "+inv.Text)
		}
		if dec != nil {
			ce := fx.clauseEv(back, ls.bodyPos, nil)
			d1 := ce.intOf(ce.ev(dec.Expr), dec.Expr)
			fx.oblige("decreases", lname+".decreases"+suffix, ls.node.Pos(), back.pc, sAnd(sLe("0", d0), sLt(d1, d0)), "loop variant decreases and is bounded below: "+dec.Text)
		} else if ls.autoDec == nil {
			if fx.con != nil && fx.con.Options["termination"] != "unchecked" {
				fx.oblige("decreases", lname+".decreases"+suffix, ls.node.Pos(), back.pc, "false", "loop has no decreases clause")
			}
		}
	}
	out.fall = fx.mergeScoped(append([]*State{exit}, f.brk...), st)
	return out
}

// namesBodyLocal reports whether a clause names a variable declared inside the loop body.
func (x *Exec) namesBodyLocal(e ast.Expr, ls *loopSpec) bool {
	end := ls.node.End() - 1
	scope := x.fx.pkg.Types.Scope().Innermost(end)
	if scope == nil {
		return false
	}
	found := false
	ast.Inspect(e, func(n ast.Node) bool {
		if id, ok := n.(*ast.Ident); ok {
			if _, o := scope.LookupParent(id.Name, end); o != nil && o.Pos() > ls.bodyPos && o.Pos() < end {
				if _, isVar := o.(*types.Var); isVar {
					found = true
				}
			}
		}
		return true
	})
	return found
}

// havocLike returns a fresh value of the same shape as cur (typed by the variable).
func (fx *FuncCtx) havocLike(cur Val, o types.Object) Val {
	switch cur.(type) {
	case VBuf:
		return fx.fresh(bytesBufferType(fx.prog), o.Name())
	case VBufPtr:
		return cur
	case VRunes:
		fx.useSeq = true
		s := fx.declare(sortSeq, o.Name()+"_rs")
		n := fx.declare(sortInt, o.Name()+"_rn")
		fx.emit(fmt.Sprintf("(assert (and (<= 0 %s) (= (bs_len %s) %s)))", n, s, n))
		return VRunes{s, n}
	}
	return fx.fresh(o.Type(), o.Name())
}

func (x *Exec) forStmt(s *ast.ForStmt, st *State) *Flow {
	out := &Flow{}
	if s.Init != nil {
		f := x.stmt(s.Init, st)
		out.absorb(f)
		st = f.fall
	}
	ord := x.fx.loopOrd[s]
	var lc *LoopContract
	if x.fx.con != nil {
		lc = x.fx.con.Loops[ord]
	}
	ls := &loopSpec{node: s, ord: ord, lc: lc, bodyPos: s.Body.Lbrace + 1, body: s.Body.List, modNodes: []ast.Node{s.Body, s.Post}}
	if s.Cond != nil {
		ls.guard = func(h *State) Term {
			e := x.ev(h)
			return e.boolOf(e.ev(s.Cond), s.Cond)
		}
	}
	if s.Post != nil {
		ls.post = func(b *State) *Flow { return x.stmt(s.Post, b) }
	}
	f := x.loop(ls, st)
	out.absorb(f)
	out.fall = f.fall
	return out
}

func (x *Exec) rangeStmt(s *ast.RangeStmt, st *State) *Flow {
	fx := x.fx
	e := x.ev(st)
	coll := e.ev(s.X)
	ord := fx.loopOrd[s]
	var lc *LoopContract
	if fx.con != nil {
		lc = fx.con.Loops[ord]
	}
	// index variable: the key variable if named, else a synthetic one called rangeidx
	var idxObj types.Object
	if id, ok := s.Key.(*ast.Ident); ok && id.Name != "_" && s.Tok == token.DEFINE {
		idxObj = x.info.Defs[id]
	}
	synthetic := false
	if idxObj == nil {
		idxObj = types.NewVar(s.Pos(), fx.pkg.Types, fmt.Sprintf("rangeidx%d", ord), types.Typ[types.Int])
		synthetic = true
	}
	var n Term
	var elem func(h *State, k Term) Val
	switch c := coll.(type) {
	case VStrs:
		n = c.N
		elem = func(h *State, k Term) Val { return wrapElem(c, fx.strAt(c, k, false)) }
	case VIfaces:
		n = c.N
		elem = func(h *State, k Term) Val { return fx.ifaceAt(c, k, false) }
	case VRefs:
		n = c.N
		elem = func(h *State, k Term) Val {
			r := fx.name(sortInt, "re", sSel(c.Arr, k))
			fx.assume(h.pc, sAnd(sLe("0", r), sLe(r, fx.allocTerm(h))))
			return VRef{r, c.Elem}
		}
	case VStr:
		if t := x.info.TypeOf(s.X); t != nil && isByteSlice(t) {
			n = c.L
			elem = func(h *State, k Term) Val { return fx.byteAt(c, k, false) }
		} else {
			return x.rangeString(s, st, c, lc, ord)
		}
	default:
		return x.rangeOther(s, st, coll, lc, ord)
	}
	st.env[idxObj] = VInt{"0"}
	if synthetic {
		fx.ghostLocals[fmt.Sprintf("rangeidx%d", ord)] = idxObj
		fx.ghostLocals["rangeidx"] = idxObj
	}
	ls := &loopSpec{node: s, ord: ord, lc: lc, bodyPos: s.Body.Lbrace + 1, body: s.Body.List, modNodes: []ast.Node{s.Body}, modExtra: []types.Object{idxObj}}
	ls.autoInv = func(h *State) Term {
		k := h.env[idxObj].(VInt).T
		return sAnd(sLe("0", k), sLe(k, n))
	}
	ls.autoDec = func(h *State) Term { return sSub(n, h.env[idxObj].(VInt).T) }
	ls.guard = func(h *State) Term { return sLt(h.env[idxObj].(VInt).T, n) }
	ls.pre = func(b *State) {
		if id, ok := s.Value.(*ast.Ident); ok && id.Name != "_" {
			obj := x.info.Defs[id]
			if obj == nil {
				obj = x.info.Uses[id]
			}
			b.env[obj] = elem(b, b.env[idxObj].(VInt).T)
		}
	}
	ls.post = func(b *State) *Flow {
		b.env[idxObj] = VInt{fx.name(sortInt, "k", sAdd(b.env[idxObj].(VInt).T, "1"))}
		return &Flow{fall: b}
	}
	f := x.loop(ls, st)
	if f.fall != nil {
		delete(f.fall.env, idxObj)
	}
	return f
}

// ---------------------------------------------------------------------------
// clause evaluation in the scope of the function under verification

func (fx *FuncCtx) clauseEv(st *State, pos token.Pos, results []Val) *Ev {
	scope := fx.pkg.Types.Scope().Innermost(pos)
	lookup := func(name string) (Val, bool) {
		if results != nil {
			for i, rn := range fx.resNames {
				if rn == name && i < len(results) {
					return results[i], true
				}
			}
		}
		if o, ok := fx.ghostLocals[name]; ok {
			if v, ok := st.env[o]; ok {
				return v, true
			}
		}
		if scope != nil {
			if _, o := scope.LookupParent(name, pos); o != nil {
				if v, ok := st.env[o]; ok {
					return v, true
				}
			}
		}
		if o, ok := fx.params[name]; ok {
			if v, ok := st.env[o]; ok {
				return v, true
			}
		}
		return nil, false
	}
	ev := &Ev{fx: fx, st: st, contract: true, lookup: lookup, pkg: fx.pkg.Types}
	if len(fx.loopEntry) > 0 {
		ev.loopEntryEv = fx.loopEntry[len(fx.loopEntry)-1]
	}
	if fx.con != nil {
		ev.modKeys = strings.Fields(fx.con.Options["modifies"])
	}
	if fx.entry != nil {
		entry := fx.entry
		ev.oldEv = &Ev{fx: fx, st: entry, contract: true, pkg: fx.pkg.Types, lookup: func(name string) (Val, bool) {
			if o, ok := fx.params[name]; ok {
				v, ok := entry.env[o]
				return v, ok
			}
			// a result named inside old(...) is the result itself (a value, not a location)
			if results != nil {
				for i, rn := range fx.resNames {
					if rn == name && i < len(results) {
						return results[i], true
					}
				}
			}
			return nil, false
		}}
	}
	return ev
}

// embeddedHolder finds the embedded pointer field of r through which a promoted field is reached.
func (x *Exec) embeddedHolder(r VRef, field string, st *State) (VRef, bool) {
	stt := x.fx.prog.structByName(r.Elem)
	if stt == nil {
		return VRef{}, false
	}
	for i := 0; i < stt.NumFields(); i++ {
		f := stt.Field(i)
		if !f.Embedded() {
			continue
		}
		if en, ok := elemName(f.Type()); ok && x.fx.prog.heapHasField(en, field) {
			inner := x.fx.readField(st, r.T, r.Elem, f.Name(), f.Type(), false).(VRef)
			return inner, true
		}
	}
	return VRef{}, false
}
