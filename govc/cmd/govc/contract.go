package main

// Contract and spec file parsing.
//
// Contract files in /repo (comment-only, //go:build verif) carry lines "//@ ...".
// Spec files in /verif/spec carry the same clause language without the prefix.
//
//   func NAME(params) (results)           -- start of a function contract
//   func (recv T) NAME(params) (results)
//   func pkg.NAME(...) / func (*pkg.T).NAME(...)  -- dependency (spec files, with "assumed")
//     serves C12 C08
//     assumed                              -- contract is trusted, body not checked
//     requires [label:] EXPR
//     ensures  [label:] EXPR
//     loop N
//       invariant [label:] EXPR
//       decreases EXPR
//   spec func NAME(a int, s seq) bool = EXPR      -- spec function (define-fun)
//   spec rec func NAME(...) T = EXPR              -- recursive (define-fun-rec)
//   spec uninterpreted func NAME(...) T           -- declare-fun
//   axiom NAME: EXPR                              -- assumed fact (listed in evidence)
//
// Lines whose first word is not a keyword continue the previous clause.

import (
	"fmt"
	"go/ast"
	"go/parser"
	"os"
	"regexp"
	"strings"
)

type Clause struct {
	Label string
	Text  string
	Expr  ast.Expr
	File  string
	Line  int
}

type LoopContract struct {
	Ord        int
	Invariants []*Clause
	Decreases  *Clause
}

type Contract struct {
	Key      string // qualified name: pkgpath.Name or pkgpath.(T).Name
	Header   string
	RecvName string
	Params   []string // names as written in the contract header
	Results  []string
	Serves   []string
	Assumed  bool
	Requires []*Clause
	Ensures  []*Clause
	Loops    map[int]*LoopContract
	Options  map[string]string
	File     string
	Line     int
}

type SpecFunc struct {
	Name          string
	Params        []SpecParam
	Ret           string // int | bool | seq
	Body          *Clause
	Rec           bool
	Uninterpreted bool
	File          string
}
type SpecParam struct{ Name, Type string }

type Axiom struct {
	Name   string
	Clause *Clause
}

type SpecSet struct {
	Contracts map[string]*Contract
	Funcs     map[string]*SpecFunc
	FuncOrder []string
	Axioms    []*Axiom
	Langs     map[string]*LangDef
	LangOrder []string
	Lemmas    []*LemmaDef
	Raw       map[string][]rawEntry // other directive kinds: kind -> entries
}

type rawEntry struct {
	Kind string
	Text string
	File string
	Line int
}

func newSpecSet() *SpecSet {
	return &SpecSet{Contracts: map[string]*Contract{}, Funcs: map[string]*SpecFunc{}, Langs: map[string]*LangDef{}, Raw: map[string][]rawEntry{}}
}

var keywords = map[string]bool{"func": true, "serves": true, "assumed": true, "requires": true, "ensures": true,
	"loop": true, "invariant": true, "decreases": true, "spec": true, "axiom": true, "lang": true, "lemma": true,
	"option": true, "policy": true, "table": true, "end": true, "groupchar": true, "finding": true, "bounded": true}

var labelRe = regexp.MustCompile(`^([A-Za-z_][A-Za-z0-9_.]*):\s+(.*)$`)

// parseSpecText parses clause lines. defaultPkg is the import path prepended to
// unqualified function names ("" in /verif/spec files: names must be qualified).
func (ss *SpecSet) parseLines(file string, lines []string, lineNos []int, defaultPkg string) error {
	type pending struct {
		kind string
		text string
		line int
	}
	var items []pending
	for i, ln := range lines {
		t := strings.TrimSpace(ln)
		if t == "" || strings.HasPrefix(t, "#") {
			continue
		}
		// strip trailing comment " // ..." only when preceded by two spaces (expressions contain no //)
		if k := strings.Index(t, "  // "); k >= 0 {
			t = strings.TrimSpace(t[:k])
		}
		word := t
		rest := ""
		if k := strings.IndexAny(t, " \t"); k >= 0 {
			word, rest = t[:k], strings.TrimSpace(t[k+1:])
		}
		if keywords[word] {
			items = append(items, pending{word, rest, lineNos[i]})
		} else {
			if len(items) == 0 {
				return fmt.Errorf("%s:%d: continuation line without clause", file, lineNos[i])
			}
			items[len(items)-1].text += " " + t
		}
	}
	var cur *Contract
	var curLoop *LoopContract
	mk := func(p pending) (*Clause, error) {
		c := &Clause{Text: p.text, File: file, Line: p.line}
		if m := labelRe.FindStringSubmatch(p.text); m != nil && !strings.Contains(m[1], ".") {
			c.Label, c.Text = m[1], m[2]
		}
		e, err := parser.ParseExpr(rewriteImplies(c.Text))
		if err != nil {
			return nil, fmt.Errorf("%s:%d: cannot parse expression %q: %v", file, p.line, c.Text, err)
		}
		c.Expr = e
		return c, nil
	}
	for _, p := range items {
		switch p.kind {
		case "func":
			c, err := parseFuncHeader(p.text, defaultPkg)
			if err != nil {
				return fmt.Errorf("%s:%d: %v", file, p.line, err)
			}
			c.File, c.Line = file, p.line
			if _, dup := ss.Contracts[c.Key]; dup {
				return fmt.Errorf("%s:%d: duplicate contract for %s", file, p.line, c.Key)
			}
			ss.Contracts[c.Key] = c
			cur, curLoop = c, nil
		case "serves":
			if cur == nil {
				return fmt.Errorf("%s:%d: serves outside func", file, p.line)
			}
			cur.Serves = append(cur.Serves, strings.Fields(p.text)...)
		case "assumed":
			if cur == nil {
				return fmt.Errorf("%s:%d: assumed outside func", file, p.line)
			}
			cur.Assumed = true
		case "option":
			if cur == nil {
				return fmt.Errorf("%s:%d: option outside func", file, p.line)
			}
			kv := strings.SplitN(p.text, " ", 2)
			v := "true"
			if len(kv) == 2 {
				v = strings.TrimSpace(kv[1])
			}
			cur.Options[kv[0]] = v
		case "requires", "ensures":
			if cur == nil {
				return fmt.Errorf("%s:%d: %s outside func", file, p.line, p.kind)
			}
			c, err := mk(p)
			if err != nil {
				return err
			}
			if p.kind == "requires" {
				cur.Requires = append(cur.Requires, c)
			} else {
				cur.Ensures = append(cur.Ensures, c)
			}
		case "loop":
			if cur == nil {
				return fmt.Errorf("%s:%d: loop outside func", file, p.line)
			}
			var n int
			if _, err := fmt.Sscanf(p.text, "%d", &n); err != nil {
				return fmt.Errorf("%s:%d: loop needs an ordinal", file, p.line)
			}
			curLoop = &LoopContract{Ord: n}
			cur.Loops[n] = curLoop
		case "invariant", "decreases":
			if curLoop == nil {
				return fmt.Errorf("%s:%d: %s outside loop", file, p.line, p.kind)
			}
			c, err := mk(p)
			if err != nil {
				return err
			}
			if p.kind == "invariant" {
				curLoop.Invariants = append(curLoop.Invariants, c)
			} else {
				curLoop.Decreases = c
			}
		case "spec":
			sf, err := parseSpecFunc(p.text, file, p.line)
			if err != nil {
				return err
			}
			if _, dup := ss.Funcs[sf.Name]; dup {
				return fmt.Errorf("%s:%d: duplicate spec func %s", file, p.line, sf.Name)
			}
			ss.Funcs[sf.Name] = sf
			ss.FuncOrder = append(ss.FuncOrder, sf.Name)
			cur, curLoop = nil, nil
		case "axiom":
			m := labelRe.FindStringSubmatch(p.text)
			if m == nil {
				return fmt.Errorf("%s:%d: axiom needs a name", file, p.line)
			}
			e, err := parser.ParseExpr(rewriteImplies(m[2]))
			if err != nil {
				return fmt.Errorf("%s:%d: %v", file, p.line, err)
			}
			ss.Axioms = append(ss.Axioms, &Axiom{m[1], &Clause{Label: m[1], Text: m[2], Expr: e, File: file, Line: p.line}})
			cur, curLoop = nil, nil
		case "lang":
			ld, err := parseLangDef(p.text, file, p.line)
			if err != nil {
				return err
			}
			if _, dup := ss.Langs[ld.Name]; dup {
				return fmt.Errorf("%s:%d: duplicate lang %s", file, p.line, ld.Name)
			}
			ss.Langs[ld.Name] = ld
			ss.LangOrder = append(ss.LangOrder, ld.Name)
			cur, curLoop = nil, nil
		case "lemma":
			lm, err := parseLemmaDef(p.text, file, p.line)
			if err != nil {
				return err
			}
			ss.Lemmas = append(ss.Lemmas, lm)
			cur, curLoop = nil, nil
		default:
			ss.Raw[p.kind] = append(ss.Raw[p.kind], rawEntry{p.kind, p.text, file, p.line})
			cur, curLoop = nil, nil
		}
	}
	return nil
}

var funcHdrRe = regexp.MustCompile(`^(\([^)]*\)\s*)?([A-Za-z0-9_./*()-]+?)\s*(\(.*)$`)

func parseFuncHeader(text, defaultPkg string) (*Contract, error) {
	c := &Contract{Header: text, Loops: map[int]*LoopContract{}, Options: map[string]string{}}
	m := funcHdrRe.FindStringSubmatch(text)
	if m == nil {
		return nil, fmt.Errorf("bad func header %q", text)
	}
	recv, name, sig := strings.TrimSpace(m[1]), m[2], m[3]
	key := name
	if recv != "" {
		// (e *escaper) or (t T)
		inner := strings.TrimSpace(recv[1 : len(recv)-1])
		parts := strings.Fields(inner)
		if len(parts) != 2 {
			return nil, fmt.Errorf("bad receiver %q", recv)
		}
		c.RecvName = parts[0]
		tn := strings.TrimPrefix(parts[1], "*")
		pkg := defaultPkg
		if k := strings.LastIndex(tn, "."); k >= 0 {
			pkg, tn = tn[:k], tn[k+1:]
		}
		key = pkg + ".(" + tn + ")." + name
	} else if !strings.Contains(name, ".") || defaultPkg != "" && !strings.Contains(name, "/") && !strings.Contains(name, ".") {
		if defaultPkg == "" {
			return nil, fmt.Errorf("unqualified function %q in spec file", name)
		}
		key = defaultPkg + "." + name
	}
	c.Key = key
	e, err := parser.ParseExpr("func" + sig)
	if err != nil {
		return nil, fmt.Errorf("bad signature %q: %v", sig, err)
	}
	ft, ok := e.(*ast.FuncType)
	if !ok {
		return nil, fmt.Errorf("bad signature %q", sig)
	}
	names := func(fl *ast.FieldList) []string {
		var out []string
		if fl == nil {
			return out
		}
		for _, f := range fl.List {
			if len(f.Names) == 0 {
				out = append(out, "_")
			}
			for _, n := range f.Names {
				out = append(out, n.Name)
			}
		}
		return out
	}
	c.Params = names(ft.Params)
	c.Results = names(ft.Results)
	return c, nil
}

var specFuncRe = regexp.MustCompile(`^(rec\s+|uninterpreted\s+)?func\s+([A-Za-z_][A-Za-z0-9_]*)\s*\(([^)]*)\)\s*([a-z]+)\s*(?:=\s*(.*))?$`)

func parseSpecFunc(text, file string, line int) (*SpecFunc, error) {
	m := specFuncRe.FindStringSubmatch(text)
	if m == nil {
		return nil, fmt.Errorf("%s:%d: bad spec func %q", file, line, text)
	}
	sf := &SpecFunc{Name: m[2], Ret: m[4], File: file}
	switch strings.TrimSpace(m[1]) {
	case "rec":
		sf.Rec = true
	case "uninterpreted":
		sf.Uninterpreted = true
	}
	if strings.TrimSpace(m[3]) != "" {
		lastType := ""
		parts := strings.Split(m[3], ",")
		for i := len(parts) - 1; i >= 0; i-- {
			f := strings.Fields(parts[i])
			switch len(f) {
			case 2:
				lastType = f[1]
				sf.Params = append([]SpecParam{{f[0], f[1]}}, sf.Params...)
			case 1:
				sf.Params = append([]SpecParam{{f[0], lastType}}, sf.Params...)
			default:
				return nil, fmt.Errorf("%s:%d: bad spec param %q", file, line, parts[i])
			}
		}
	}
	if !sf.Uninterpreted {
		if m[5] == "" {
			return nil, fmt.Errorf("%s:%d: spec func %s needs a body", file, line, sf.Name)
		}
		e, err := parser.ParseExpr(rewriteImplies(m[5]))
		if err != nil {
			return nil, fmt.Errorf("%s:%d: %v", file, line, err)
		}
		sf.Body = &Clause{Text: m[5], Expr: e, File: file, Line: line}
	}
	return sf, nil
}

// loadContractFile reads a Go comment-only contract file from /repo.
func (ss *SpecSet) loadContractFile(path, pkgPath string) error {
	data, err := os.ReadFile(path)
	if err != nil {
		return err
	}
	var lines []string
	var nos []int
	for i, ln := range strings.Split(string(data), "\n") {
		t := strings.TrimSpace(ln)
		var body string
		switch {
		case strings.HasPrefix(t, "//@"):
			body = t[3:]
		case strings.HasPrefix(t, "// @"):
			body = t[4:]
		default:
			continue
		}
		lines = append(lines, body)
		nos = append(nos, i+1)
	}
	return ss.parseLines(path, lines, nos, pkgPath)
}

func (ss *SpecSet) loadSpecFile(path string) error {
	data, err := os.ReadFile(path)
	if err != nil {
		return err
	}
	var lines []string
	var nos []int
	for i, ln := range strings.Split(string(data), "\n") {
		lines = append(lines, ln)
		nos = append(nos, i+1)
	}
	return ss.parseLines(path, lines, nos, "")
}
