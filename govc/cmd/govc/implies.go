package main

import "strings"

// rewriteImplies turns the infix "A ==> B" (lowest precedence, right associative) of the clause
// language into the Go call syntax implies(A, B), at every nesting depth.
func rewriteImplies(s string) string {
	if !strings.Contains(s, "==>") {
		return s
	}
	// split the current level at top-level commas, rewrite each piece
	pieces := splitTop(s, ",")
	if len(pieces) > 1 {
		for i := range pieces {
			pieces[i] = rewriteImplies(pieces[i])
		}
		return strings.Join(pieces, ",")
	}
	parts := splitTop(s, "==>")
	if len(parts) > 1 {
		acc := rewriteImplies(parts[len(parts)-1])
		for i := len(parts) - 2; i >= 0; i-- {
			acc = "implies(" + rewriteImplies(parts[i]) + ", " + acc + ")"
		}
		return acc
	}
	// no top-level operator: descend into bracket groups
	var b strings.Builder
	i := 0
	for i < len(s) {
		c := s[i]
		switch c {
		case '"', '`', '\'':
			j := skipQuoted(s, i)
			b.WriteString(s[i:j])
			i = j
		case '(', '[':
			j := matchClose(s, i)
			b.WriteByte(c)
			b.WriteString(rewriteImplies(s[i+1 : j]))
			b.WriteByte(s[j])
			i = j + 1
		default:
			b.WriteByte(c)
			i++
		}
	}
	return b.String()
}

func skipQuoted(s string, i int) int {
	q := s[i]
	j := i + 1
	for j < len(s) {
		if s[j] == '\\' && q != '`' {
			j += 2
			continue
		}
		if s[j] == q {
			return j + 1
		}
		j++
	}
	return len(s)
}

func matchClose(s string, i int) int {
	d := 0
	j := i
	for j < len(s) {
		switch s[j] {
		case '"', '`', '\'':
			j = skipQuoted(s, j)
			continue
		case '(', '[':
			d++
		case ')', ']':
			d--
			if d == 0 {
				return j
			}
		}
		j++
	}
	return len(s) - 1
}

func splitTop(s, sep string) []string {
	var out []string
	d := 0
	last := 0
	i := 0
	for i < len(s) {
		switch s[i] {
		case '"', '`', '\'':
			i = skipQuoted(s, i)
			continue
		case '(', '[':
			d++
		case ')', ']':
			d--
		}
		if d == 0 && strings.HasPrefix(s[i:], sep) {
			out = append(out, s[last:i])
			i += len(sep)
			last = i
			continue
		}
		i++
	}
	out = append(out, s[last:])
	return out
}
