#!/usr/bin/env python3
# Regenerates /verif/MANIFEST.json from the table below (keeps it schema-valid at all times).
import json, subprocess, sys

TECH = "contract-based deductive verification: contracts on the real Go functions (comment-only files behind build tag verif), VCs generated from /repo's typed AST by govc (symbolic execution, loops cut at invariants, calls by contract), regular-language lemmas on the real regexp literals with SMT-checked product certificates; discharged by z3 4.8.12 / z3 5.1.0 / cvc5 1.0.3"

COMMON = " Common trusted base: govc itself (Go-subset semantics, VC generation, regex->DFA translation validated differentially against package regexp every run); assumed contracts of the Go standard library listed in /verif/spec/assumed.spec; UTF-8 facts U1-U3; mathematical integers with explicit no-overflow obligations under len(x) < 2^56."

CLAIMED = {
 "C01": ("Layer 1 only: every scanner and transition function of transition.go (eatWhiteSpace, eatAttrName, eatTagName, tText, tTag, tAttrName, tAfterName, tBeforeValue, tHTMLCmt, tSpecialTagEnd, indexTagEnd, tAttr, tError, nudge) is proved equal to a first-occurrence / recursive spec written from the HTML standard's character classes, for all byte strings (loop invariants, no bound); the chains chosen for text and quoted attributes end in the HTML escaper whose image is proved free of < > \" ' (C10 lemmas); actions in tag/attribute-name/unquoted positions are proved rejected (sanitizerForContext).",
         "NOT proved: contextAfterText, escapeText, join, escapeAction and the simulation of the HTML5 tokenizer by the context machine (Layer 2) - the claim is 'Layer 1 proved, composition assumed'. Known finding C01-script-double-escaped-state (replayed on every run) shows Layer 2 is false for the script data double escaped state." , "4 C01"),
 "C02": ("Policy rows and sanitizer chains: sanitizationContextForAttrVal/ForElementContent proved to demand at least the class of the reviewed policy for ALL element/attribute/rel strings (symbolic strings against /verif/spec/policy.spec); sanitizersForAttributeValue proved to build, for every (element, attribute) combination in the context, a chain that puts the typed-only / URL sanitizer first, the normalizer at URL start, only validated-prefix escaping chains after a static prefix, and an unconditional HTML escaper last; every typed-only sanitizer proved to fail on anything but its own safehtml type; URL sanitizers proved to return their input only if it is in URLAccept (C11: never javascript:).",
         "Three KNOWN FINDINGS are reported on every run with their witnesses replayed on the real code: URL split over several actions, rel=\"alternate stylesheet\", memo key of derived templates ignores static prefix and rel (proved by a relational frame obligation on mangle). escapeAction/contextAfterText (what attr.value and linkRel record) are not under contract yet.", "4 C02"),
 "C03": ("All eleven sanitize* functions proved against type-switch contracts over a tagged model of interface{} values: contents pass through only for the sanitizer's own safehtml type (after pointer indirection), every other value - whatever its type - gets exactly the result of the plain string with the same contents; attribute chains proved to end in a stage that escapes whatever it receives.",
         "Interface values are modelled as (dynamic type tag, string contents); Indirect/Stringify (reflection) are assumed contracts. Finding C03-html-raw-in-attribute was found by obligation sanitizersForAttributeValue#post.policy and repaired (fix: commit 242a7af).", "4 C03"),
 "C04": ("Default deny and 'never weaker than the reviewed policy' proved for all strings: unlisted (element, attribute) pairs and element contents yield an error; listed ones yield a class >= the oracle's (partial order trustge); enum sanitizers proved to emit only the policy's words and chains refuse static partial values in enum contexts; tag/attribute-name/unquoted positions rejected; conditional names (names lists) all checked by loop invariants over both lists.",
         "Oracle = /verif/spec/policy.spec (written once from the policy as reviewed at the pinned commit, never regenerated). strings.Fields is named, not characterised (the link-rel rule is stated over its result). Failed obligations of the 300-literal table goals come back as solver 'unknown' rather than a model.", "4 C04"),
 "C05": ("Two-state contracts on the real template.go / escape.go entry points in a heap model (field maps for Template, nameSpace, text/template.Template; ghost flag written()): escape, lookupAndEscapeTemplate, Execute, ExecuteTemplate, ExecuteToHTML, ExecuteTemplateToHTML and the top-level escapeTemplate are proved: a recorded failure (escapeErr neither nil nor errEscapeOK) is returned unchanged, never overwritten, and nothing is written (text/template's Execute, the only writer, is not reached); a failing analysis records the error and nils both trees; an incomplete template is an error; the *ToHTML variants return the zero HTML on every error path.",
         "The analysis below escapeTree (escape.go: escapeTree, computeOutCtx, escapeTemplateBody, commit) is an ASSUMED abstract contract here, so 'every listed reason yields an error' is not derived, and KNOWN FINDING C05-failed-callee-left-in-memo (replayed on every run) lives exactly there. Preconditions assume the template is registered under its own name in its set and trees are in sync (orphaned templates excluded). text/template's Execute/Lookup/Name are assumed contracts.", "4 C05"),
 "C01": ("Layer 1: every scanner and transition function of transition.go (eatWhiteSpace, eatAttrName, eatTagName, tText, tTag, tAttrName, tAfterName, tBeforeValue, tHTMLCmt, tSpecialTagEnd, indexTagEnd, tAttr, tError, nudge) is proved equal to a first-occurrence / recursive spec written from the HTML standard's character classes, for all byte strings (loop invariants, no bound). Layer 1b: contextAfterText (what attr.value records), escapeText (well-formed context in, well-formed context out, no panic) and join (branches agree on state, delimiter, script type, link rel; the ambiguous-value flag of either branch is carried) are under contract; the chains chosen for text and quoted attributes end in the HTML escaper whose image is proved free of < > \" ' (C10 lemmas); actions in tag/attribute-name/unquoted positions are proved rejected (sanitizerForContext).",
         "NOT proved: escapeAction and the simulation of the HTML5 tokenizer by the context machine (Layer 2) - the claim is 'Layer 1 proved, composition assumed'. Known finding C01-script-double-escaped-state (replayed on every run) shows Layer 2 is false for the script data double escaped state. Finding C02-join-drops-ambiguous-flag was found through the join contract and repaired (fix: da31c0f).", "4 C01"),
 "C06": ("Per-function lemmas of the 'rewritten exactly once' argument, proved on the real code in the heap model: commit() leaves all three pending-edit maps and the called set fresh and empty, writes only the escaper's bookkeeping fields and the rewritten parts of parse trees, and leaves the inference memo (output) and the derived-template table untouched (frame obligations); escapeTemplate commits only after a successful analysis and then has no pending edit left; escape / lookupAndEscapeTemplate never analyse a template whose escapeErr is already set (okstays / sticky); mangle names every non-text context copy apart from the original (layout contract) and depends only on the listed context fields.",
         "This is NOT a proof of the whole-history statement: the composition over call histories is argued in DESIGN.md section 4, the analysis below escapeTree is an ASSUMED abstract contract (it only adds to the memo and keys pending edits by non-nil nodes), range-over-map is modelled as 'some entries' (that every pending edit is applied is not derived), ensurePipelineContains is assumed to write only its pipeline node. KNOWN FINDINGS replayed on every run: C06-derived-copy-of-rewritten-tree (a context-specific copy taken from an already rewritten tree is escaped twice), C02-memo-key-ignores-prefix-and-rel, C05-failed-callee-left-in-memo.", "4 C06"),
 "C07": ("checkCanParse proved to fail exactly when the set has executed; Parse, parseFiles and parseGlob proved to reach it first and to return its error with the heap unchanged (waypoint + frame on the verified prefix); escape and lookupAndEscapeTemplate proved to set escaped under the set mutex before anything else and never to clear it. New, (*Template).new and (*Template).New proved to register a fresh, unexecuted template and, on redefinition, to reset only the replaced entry. Clone proved, with a loop invariant over the new set: it fails when the receiver or any member has executed; on success the clone's nameSpace, set, escaper maps (output, derived, called, pending edits), every member, every member's text template and every copied tree are objects allocated by this call; no object that existed before the call is written (onlyfresh); the original's mutex is released.",
         "The bodies of Parse/parseFiles after the gate are not under contract (option stopafter; listed in the evidence). text/template's New/Clone/Templates and parse.Tree.Copy are ASSUMED contracts (fresh results; Clone's templates belong to a fresh group). That later executions of the clone touch only clone-owned objects follows from the freshness facts only together with the assumed frame of the analysis. Mutex modelled sequentially as a ghost bit.", "4 C07"),
 "C08": ("Safety obligations generated without annotation for every function under contract in all three packages (about 90 functions): every index and slice expression in range, every dereferenced Template/nameSpace/parse-node pointer non-nil under the stated representation preconditions (set members non-nil with non-nil text templates), every type assertion, integer overflow, Lock/Unlock discipline, the explicit out-of-sync panic of lookupAndEscapeTemplate unreachable, and a decreasing variant for every loop (range-over-map termination assumed).",
         "NOT decided: termination of the mutual recursion of the analysis, panics inside text/template, commit's explicit panics (empty set, AddParseTree failure: commit is not under option nopanic) and the functions not under contract (escapeAction, escapeTree and the functions below it). Finding C08-break-continue-panic ({{break}} panicked) was repaired (fix: deb22bd); the nil-tree panic after a failed callee is KNOWN FINDING C05-failed-callee-left-in-memo.", "4 C08"),
 "C10": ("coerceToUTF8InterchangeValid proved equal to the spec transducer (per code point, specbad -> U+FFFD) for all strings, including the equivalence of the merged range table with the arithmetic definition of control and noncharacter code points; HTMLEscaped = htmlesc(coerce(s)); HTMLConcat = concatenation; the image language of escaping proved free of < > \" ' , & only in the five references, interchange-valid (regular-language lemmas).",
         "html.EscapeString/UnescapeString are assumed to be the five-entry homomorphism and its left inverse (the round-trip clause rests on that); rangetable.Merge assumed to be the union; range-over-string = UTF-8 decoding assumed.", "4 C10"),
 "C11": ("URLSanitized/isSafeURL proved equal to membership in URLAccept = lower^-1(L(safeURLPattern) minus ^javascript:), for all strings; URLAccept proved disjoint from the WHATWG javascript-scheme language, also after character-reference decoding (over-approximated by 'anything after the first &'); converse clause proved as a language inclusion.",
         "BOUNDED stand-in (not counted as proved): capture group 1 of safeURLPattern equals \"javascript\" iff the lower-cased input starts with \"javascript:\". strings.ToLower = rune-wise unicode.ToLower assumed.", "4 C11"),
 "C12": ("URLSetSanitized proved, for all strings, to return a member of the canonical language SrcsetCanon = cand (\" , \" cand)* with cand = url | url \" \" descriptor, url accepted by URLSanitized, free of whitespace and not touching a comma, descriptor a run of float characters: loop invariant on the buffer plus regular-language lemmas (quotient by \",\" for the comma encoding, closure of the language under appending a candidate); the placeholder about:invalid#zGoSafez is itself canonical and is returned exactly when the buffer is empty. consumeIn/consumeNotIn proved to return the longest prefix in / not in the mask as views of the input; appendURLToSet proved to append exactly commaenc(url) and commaenc proved to map accepted whitespace-free URLs into the output URL language; the mask tables are extracted from init() and proved equal to the Infra definitions.",
         "BOUNDED stand-ins (not counted as proved): (1) adequacy of SrcsetCanon against the WHATWG srcset parser - every member over a 9-letter alphabet up to length 7 splits into exactly its candidates; (2) idempotence and 'URLs and descriptors are copied in order from the input' on the real code for all strings over a 9-letter alphabet up to length 6. 'number' is defined as strconv.ParseFloat success (assumed alphabet contract).", "4 C12"),
 "C13": ("urlProcessor proved equal to the RFC 3986 spec transducer (encupto) for all strings and its image proved inside (unreserved|%hh)* resp. the normalised alphabet via closure lemmas; Append, QueryEscapeURL, the Format closure (missing label -> error, '..' argument -> error, piece = escaped argument, error is sticky) and the fragment/separator logic of WithParams proved; prefix pattern proved inside the four documented ASCII forms; escaped pieces proved free of URL delimiters.",
         "KNOWN FINDING C13-adjacent-markers-dotdot (two adjacent pieces build '..'; the single-piece lemma is proved with that region excluded). Finding C13-prefix-unicode-fold was found by the prefix lemma and repaired (fix: f5d6636). regexp.ReplaceAllStringFunc is an assumed higher-order contract; order independence of WithParams (sort) is not derived.", "4 C13"),
 "C14": ("validateURLPrefix, validateTrustedResourceURLPrefix, decodeURLPrefix, validateDoesNotEndsWithCharRefPrefix, validateTrustedResourceURLSubstitution proved equal to spec predicates over the code's patterns; the chain choice per prefix class (TRU -> validate+queryEscape, prefix with ? or # -> queryEscape, else normalize, ambiguous -> error) proved inside sanitizersForAttributeValue; normalised / escaped images proved attribute-safe.",
         "Idempotence of normalisation and the 'valid %XX kept' clause are not proved (alphabet restriction only). html.UnescapeString is an uninterpreted assumed function. Shares known finding C02-memo-key-ignores-prefix-and-rel.", "4 C14"),
 "C15": ("StyleFromProperties proved to emit exactly D1..D17 (one declaration per non-empty field, documented names and order, ';' terminated) for all inputs, by 17 waypoints; filter, cssEscapeString (per-code-point spec) proved; value patterns proved inside the documented alphabets and inside a CSS-safe value language; font names and URL pieces proved escaped.",
         "Finding C15-comma-in-regular-value was found by lemma C15.regular_value_alphabet and repaired (fix: c84af5c). The CSS Syntax 3 parse of the result is not modelled beyond the regular 'CSS-safe value' language.", "4 C15"),
 "C16": ("CSSRule proved: success implies no '<', selector in SelectorAccepted, balanced residue, result = selector{style}; SelectorAccepted outside the known-finding region proved inside the CSS-safe selector language.",
         "KNOWN FINDING C16-unquoted-url-token (replayed with a CSS tokenizer oracle). BOUNDED stand-ins: the ReplaceAllString+FindStringSubmatch characterisation (all strings <= 5 over class representatives) and hasBalancedBrackets = balanced (all strings <= 9 over '()[]a', run on the real code); hasBalancedBrackets uses container/list and is outside the subset.", "4 C16"),
 "C17": ("Layout and name check proved: success implies name in ^[$_A-Za-z][$_A-Za-z0-9]*$ and result = \"var \" name \" = \" J \";\\n\" script with J the value returned by encoding/json.Marshal; failure returns the zero Script.",
         "Thin by construction: inertness and round trip of J are the ASSUMED contract of encoding/json.Marshal (HTML-safe escaping), not proved.", "4 C17"),
 "C18": ("Both constructors proved: normal return implies the result is in ^[A-Za-z][-_A-Za-z0-9]*$ (language inclusion on the real patterns, including prefix-hyphen-value) and equals prefix ++ \"-\" ++ value.",
         "regexp.MatchString semantics assumed ($ is end of text without (?m)).", "4 C18"),
 "C20": ("Success proved to imply: no '/' and no ':' in filename, filename != \"..\", result = filepath.Join(dir, src, filename).",
         "That such a join is the cleaned directory or its direct child is the ASSUMED lemma about path/filepath.Join/Clean on Linux.", "4 C20"),
}
for k in CLAIMED:
    t, n, r = CLAIMED[k]
    CLAIMED[k] = (t, n + COMMON, r)

NA = {
 "C09": "quantifies over thread schedules; per-call contracts and the sequential VC generator built here cannot express or decide interleavings (DESIGN.md section 5)",
 "C19": "a statement about which client programs compile and about the exported API surface; not a pre/postcondition of any function (DESIGN.md section 5)",
}
ALL = ["C%02d" % i for i in range(1, 21)]
NOTBUILT = "within the technique's reach per DESIGN.md section 4, but its check is not built yet in this round (no claim is made until the check passes the must-fail corpus)"

def main():
    commits = subprocess.run(["git", "-C", "/repo", "log", "--format=%H %s", "fa244f6..HEAD"], capture_output=True, text=True).stdout.strip().splitlines()
    hook_commits = [c.split()[0] for c in commits if " verif:" in " " + c]
    checks = []
    for pid in ALL:
        if pid in CLAIMED:
            text, note, ref = CLAIMED[pid]
            checks.append({
                "property_id": pid,
                "quick_cmd": "./check %s quick" % pid,
                "thorough_cmd": "./check %s thorough" % pid,
                "evidence_file": "/verif/evidence/%s.json" % pid,
                "replay_cmd_template": "./check --replay {path}",
                "engine": "govc",
                "level_claimed": {"category": "proof", "text": text, "design_ref": "DESIGN.md section " + ref},
                "level_note": note,
                "technique": TECH,
            })
    na = []
    for pid in ALL:
        if pid in CLAIMED:
            continue
        na.append({"property_id": pid, "reason": NA.get(pid, NOTBUILT)})
    m = {
        "version": 1,
        "setup_cmd": "cd /verif/govc && GOFLAGS=-mod=mod GOPROXY=off GOSUMDB=off GOTOOLCHAIN=local go build -o /verif/bin/govc ./cmd/govc",
        "hooks": {
            "guard": "verif",
            "enable": "go build tag 'verif': comment-only contract files zz_contracts_verif.go (no executable code); govc loads /repo with -tags=verif",
            "baseline_off_cmd": "cd /repo && GOFLAGS=-mod=mod GOPROXY=off GOSUMDB=off go test -vet=off -count=1 ./...",
            "source_commits": hook_commits,
            "add_only": True,
        },
        "engines": [{"name": "govc", "path": "/verif/govc", "serves_properties": sorted(CLAIMED), "kind_free_text": "self-written deductive verifier for a Go subset: VC generation over go/ast+go/types, SMT back ends; regular-language lemma engine over regexp/syntax"}],
        "checks": checks,
        "notes": "Known findings: /verif/known_findings.json. Design and per-property detail: /verif/DESIGN.md.",
        "not_applicable": na,
    }
    json.dump(m, open("/verif/MANIFEST.json", "w"), indent=1)
    print("claimed:", sorted(CLAIMED))

main()
