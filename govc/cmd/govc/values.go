package main

// Symbolic values of the P1 engine.

import (
	"fmt"
	"go/token"
	"go/types"
	"sort"
	"strings"
)

type Val interface{}

type VInt struct{ T Term }
type VBool struct{ T Term }

// VStr is a string or []byte seen as a view into a base array.
// Lit is set for compile-time literals (used to render BSeq terms and equalities cheaply).
type VStr struct {
	B, O, L Term
	Lit     *string
}
type VSeq struct{ T Term } // ghost sequence (sort BSeq)
type VErr struct{ T Term } // error or *Error: Int, 0 is nil
type VArr struct {
	T    Term
	Bool bool
} // fixed-size array value: (Array Int Bool) or (Array Int Int)
type VStruct struct {
	TName string
	Names []string
	F     map[string]Val
}
type VBuf struct{ Seq, Len Term } // bytes.Buffer by value
type VBufPtr struct{ Obj types.Object }
type VTuple []Val

// VStrs is a []string: three parallel arrays plus a length.
type VStrs struct {
	B, O, L, N      Term
	Wrap, WrapField string // element type when the slice holds single-string structs
}

// VRefs is a slice of pointers to heap objects.
// VFuncParam is a function value received as a parameter: only whether it is nil is known.
type VFuncParam struct {
	Nil Term
}

type VRefs struct {
	Arr, N Term
	Elem   string
}

// VIface is an interface{} value: dynamic type tag + string-like contents.
type VIface struct {
	Tag Term
	S   VStr
}

// VIfaces is []interface{} (variadic args).
type VIfaces struct {
	N       Term
	Tag     Term // (Array Int Int)
	B, O, L Term // arrays
}
type VNil struct{}

// VOpaque stands for a value of a type that is not modelled (float64, ...).
type VOpaque struct{}

// VSubmatch is the result of (*regexp.Regexp).FindStringSubmatch on a table regexp.
type VSubmatch struct {
	Var string // regexp variable
	In  Term   // input as BSeq
	Hit Term   // Bool: the regexp matches
	N   int    // 1 + number of groups
}
type VSubElem struct {
	Sub VSubmatch
	Idx int
}
type VFuncRef struct{ Key string }

// VRef is a pointer into the modelled heap.
type VRef struct {
	T    Term
	Elem string // struct type name
}

// VMapLit is a (partially applied) package-level map literal.
type VMapLit struct {
	Entries []mapLitEntry
}
type mapLitEntry struct {
	Cond Term
	Node interface{} // ast.Expr of the value
}

// VHeapMap is a map value stored in the heap: domain + contents arrays over keys.
type VHeapMap struct {
	Dom, Val Term
	KeySort  string
	ElemKind string
}

const (
	sortInt     = "Int"
	sortBool    = "Bool"
	sortArr     = "(Array Int Int)"
	sortArrBool = "(Array Int Bool)"
	sortArrArr  = "(Array Int (Array Int Int))"
	sortSeq     = "BSeq"
)

func cloneStruct(s VStruct) VStruct {
	n := VStruct{TName: s.TName, Names: s.Names, F: make(map[string]Val, len(s.F))}
	for k, v := range s.F {
		n.F[k] = v
	}
	return n
}

// valEqualSyntactic reports whether two values are the same terms.
func valEqualSyntactic(a, b Val) bool {
	switch x := a.(type) {
	case VInt:
		y, ok := b.(VInt)
		return ok && x.T == y.T
	case VBool:
		y, ok := b.(VBool)
		return ok && x.T == y.T
	case VStr:
		y, ok := b.(VStr)
		return ok && x.B == y.B && x.O == y.O && x.L == y.L
	case VSeq:
		y, ok := b.(VSeq)
		return ok && x.T == y.T
	case VErr:
		y, ok := b.(VErr)
		return ok && x.T == y.T
	case VArr:
		y, ok := b.(VArr)
		return ok && x.T == y.T
	case VBuf:
		y, ok := b.(VBuf)
		return ok && x.Seq == y.Seq && x.Len == y.Len
	case VBufPtr:
		y, ok := b.(VBufPtr)
		return ok && x.Obj == y.Obj
	case VStrs:
		y, ok := b.(VStrs)
		return ok && x == y
	case VIface:
		y, ok := b.(VIface)
		return ok && x.Tag == y.Tag && valEqualSyntactic(x.S, y.S)
	case VIfaces:
		y, ok := b.(VIfaces)
		return ok && x == y
	case VRef:
		y, ok := b.(VRef)
		return ok && x.T == y.T
	case VRunes:
		y, ok := b.(VRunes)
		return ok && x == y
	case VNil:
		_, ok := b.(VNil)
		return ok
	case VOpaque:
		_, ok := b.(VOpaque)
		return ok
	case VFuncRef:
		y, ok := b.(VFuncRef)
		return ok && x.Key == y.Key
	case VHeapMap:
		y, ok := b.(VHeapMap)
		return ok && x == y
	case VRefs:
		y, ok := b.(VRefs)
		return ok && x == y
	case VSub:
		y, ok := b.(VSub)
		return ok && x.Ref == y.Ref && x.Elem == y.Elem && x.Path == y.Path
	case VMapRef:
		y, ok := b.(VMapRef)
		return ok && x.T == y.T && x.K == y.K && x.Kind == y.Kind
	case VRegex:
		y, ok := b.(VRegex)
		return ok && x == y
	case VStrMap:
		y, ok := b.(VStrMap)
		return ok && x == y
	case VFuncChoice:
		y, ok := b.(VFuncChoice)
		return ok && strings.Join(x.Conds, ",") == strings.Join(y.Conds, ",") && strings.Join(x.Keys, ",") == strings.Join(y.Keys, ",")
	case VStruct:
		y, ok := b.(VStruct)
		if !ok || x.TName != y.TName {
			return false
		}
		for _, n := range x.Names {
			if !valEqualSyntactic(x.F[n], y.F[n]) {
				return false
			}
		}
		return true
	case VTuple:
		y, ok := b.(VTuple)
		if !ok || len(x) != len(y) {
			return false
		}
		for i := range x {
			if !valEqualSyntactic(x[i], y[i]) {
				return false
			}
		}
		return true
	}
	return false
}

type unsupported struct{ msg string }

func (u unsupported) Error() string { return u.msg }

func unsupp(pos token.Pos, fset *token.FileSet, format string, args ...interface{}) {
	p := ""
	if fset != nil && pos.IsValid() {
		pp := fset.Position(pos)
		p = fmt.Sprintf("%s:%d: ", shortFile(pp.Filename), pp.Line)
	}
	panic(unsupported{p + fmt.Sprintf(format, args...)})
}

func shortFile(f string) string {
	return strings.TrimPrefix(f, "/repo/")
}

// iteVal builds a pointwise if-then-else of two values of the same shape.
func (fx *FuncCtx) iteVal(c Term, a, b Val) Val {
	if valEqualSyntactic(a, b) {
		return a
	}
	switch x := a.(type) {
	case VInt:
		if y, ok := b.(VInt); ok {
			return VInt{fx.name(sortInt, "m", sIte(c, x.T, y.T))}
		}
		if _, ok := b.(VNil); ok {
			return a
		}
	case VBool:
		y := b.(VBool)
		return VBool{fx.name(sortBool, "m", sIte(c, x.T, y.T))}
	case VStr:
		y := b.(VStr)
		return VStr{B: sIte(c, x.B, y.B), O: fx.name(sortInt, "mo", sIte(c, x.O, y.O)), L: fx.name(sortInt, "ml", sIte(c, x.L, y.L))}
	case VSeq:
		y := b.(VSeq)
		return VSeq{fx.name(sortSeq, "ms", sIte(c, x.T, y.T))}
	case VErr:
		switch y := b.(type) {
		case VErr:
			return VErr{fx.name(sortInt, "me", sIte(c, x.T, y.T))}
		case VNil:
			return VErr{fx.name(sortInt, "me", sIte(c, x.T, "0"))}
		}
	case VNil:
		switch y := b.(type) {
		case VErr:
			return VErr{fx.name(sortInt, "me", sIte(c, "0", y.T))}
		case VRef:
			return VRef{fx.name(sortInt, "mr", sIte(c, "0", y.T)), y.Elem}
		case VStrs:
			z := fx.nilStrs()
			return fx.iteVal(c, z, y)
		}
	case VArr:
		y := b.(VArr)
		return VArr{sIte(c, x.T, y.T), x.Bool}
	case VBuf:
		y := b.(VBuf)
		return VBuf{fx.name(sortSeq, "mb", sIte(c, x.Seq, y.Seq)), fx.name(sortInt, "mbl", sIte(c, x.Len, y.Len))}
	case VStrs:
		switch y := b.(type) {
		case VStrs:
			return VStrs{B: sIte(c, x.B, y.B), O: sIte(c, x.O, y.O), L: sIte(c, x.L, y.L), N: fx.name(sortInt, "mn", sIte(c, x.N, y.N)), Wrap: x.Wrap, WrapField: x.WrapField}
		case VNil:
			return fx.iteVal(c, x, fx.nilStrs())
		}
	case VIface:
		y := b.(VIface)
		return VIface{fx.name(sortInt, "mt", sIte(c, x.Tag, y.Tag)), fx.iteVal(c, x.S, y.S).(VStr)}
	case VIfaces:
		y := b.(VIfaces)
		return VIfaces{sIte(c, x.N, y.N), sIte(c, x.Tag, y.Tag), sIte(c, x.B, y.B), sIte(c, x.O, y.O), sIte(c, x.L, y.L)}
	case VRef:
		switch y := b.(type) {
		case VRef:
			return VRef{fx.name(sortInt, "mr", sIte(c, x.T, y.T)), x.Elem}
		case VNil:
			return VRef{fx.name(sortInt, "mr", sIte(c, x.T, "0")), x.Elem}
		}
	case VHeapMap:
		y := b.(VHeapMap)
		return VHeapMap{sIte(c, x.Dom, y.Dom), sIte(c, x.Val, y.Val), x.KeySort, x.ElemKind}
	case VStruct:
		y := b.(VStruct)
		n := VStruct{TName: x.TName, Names: x.Names, F: map[string]Val{}}
		for _, f := range x.Names {
			n.F[f] = fx.iteVal(c, x.F[f], y.F[f])
		}
		return n
	case VTuple:
		y := b.(VTuple)
		n := make(VTuple, len(x))
		for i := range x {
			n[i] = fx.iteVal(c, x[i], y[i])
		}
		return n
	case VBufPtr:
		// same pointer expected
	case VOpaque:
		return a
	case VFuncParam:
		if y, ok := b.(VFuncParam); ok {
			return VFuncParam{Nil: sIte(c, x.Nil, y.Nil)}
		}
	case VRefs:
		y := b.(VRefs)
		return VRefs{Arr: sIte(c, x.Arr, y.Arr), N: fx.name(sortInt, "mrn", sIte(c, x.N, y.N)), Elem: x.Elem}
	case VMapRef:
		switch y := b.(type) {
		case VMapRef:
			return VMapRef{T: fx.name(sortInt, "mm", sIte(c, x.T, y.T)), K: x.K, V: x.V, Kind: x.Kind}
		case VNil:
			return VMapRef{T: fx.name(sortInt, "mm", sIte(c, x.T, "0")), K: x.K, V: x.V, Kind: x.Kind}
		}
	case VRunes:
		y := b.(VRunes)
		return VRunes{fx.name(sortSeq, "mrs", sIte(c, x.Seq, y.Seq)), fx.name(sortInt, "mrn", sIte(c, x.N, y.N))}
	}
	panic(unsupported{fmt.Sprintf("cannot merge values %T and %T", a, b)})
}

func (fx *FuncCtx) nilStrs() VStrs {
	return VStrs{B: fx.constArrArr(), O: "((as const (Array Int Int)) 0)", L: "((as const (Array Int Int)) 0)", N: "0"}
}
func (fx *FuncCtx) constArrArr() Term {
	return "((as const (Array Int (Array Int Int))) ((as const (Array Int Int)) 0))"
}

// ---------------------------------------------------------------------------
// State

type State struct {
	pc  Term
	env map[types.Object]Val
	// heap: field maps, keyed by "Type.field"
	heap map[string]Term
}

func (s *State) clone() *State {
	n := &State{pc: s.pc, env: make(map[types.Object]Val, len(s.env))}
	for k, v := range s.env {
		n.env[k] = v
	}
	if s.heap != nil {
		n.heap = make(map[string]Term, len(s.heap))
		for k, v := range s.heap {
			n.heap[k] = v
		}
	}
	return n
}

// mergeStates merges control-flow states that are pairwise exclusive.
func (fx *FuncCtx) mergeStates(states []*State) *State {
	var live []*State
	for _, s := range states {
		if s != nil {
			live = append(live, s)
		}
	}
	if len(live) == 0 {
		return nil
	}
	if len(live) == 1 {
		return live[0]
	}
	acc := live[len(live)-1]
	for i := len(live) - 2; i >= 0; i-- {
		acc = fx.merge2(live[i], acc)
	}
	return acc
}

func (fx *FuncCtx) merge2(a, b *State) *State {
	n := &State{env: map[types.Object]Val{}}
	n.pc = fx.name(sortBool, "pc", sOr(a.pc, b.pc))
	if fx.pcParts == nil {
		fx.pcParts = map[string][]string{}
	}
	if n.pc != a.pc && n.pc != b.pc {
		fx.pcParts[n.pc] = []string{a.pc, b.pc}
	}
	// deterministic order
	var objs []types.Object
	for o := range a.env {
		if _, ok := b.env[o]; ok {
			objs = append(objs, o)
		}
	}
	sort.Slice(objs, func(i, j int) bool {
		if objs[i].Pos() != objs[j].Pos() {
			return objs[i].Pos() < objs[j].Pos()
		}
		return objs[i].Name() < objs[j].Name()
	})
	for _, o := range objs {
		n.env[o] = fx.iteVal(a.pc, a.env[o], b.env[o])
	}
	fx.mergeHeaps(n, a, b)
	return n
}
