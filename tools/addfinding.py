#!/usr/bin/env python3
# tools/addfinding.py ID PROPERTY STATUS OBLIGATION WHAT REPLAY_JSON [COMMIT] [ALSO,...]
import json, sys
f='/verif/known_findings.json'; k=json.load(open(f))
id_,prop,status,ob,what,replay=sys.argv[1:7]
commit=sys.argv[7] if len(sys.argv)>7 else ''
also=sys.argv[8].split(',') if len(sys.argv)>8 and sys.argv[8] else []
k['findings']=[e for e in k['findings'] if e['id']!=id_]
e={'id':id_,'property':prop,'status':status,'obligation':ob,'what':what}
if also: e['also_breaks']=also
if commit: e['commit']=commit
if replay and replay!='-': e['replay']=json.loads(replay)
k['findings'].append(e)
json.dump(k,open(f,'w'),indent=1,ensure_ascii=False)
print('ok',id_,len(k['findings']))
