#!/bin/bash
# tools/seedcheck.sh <seed-dir> <demo-package-dir-relative-to-repo> <property>...
# Applies <seed-dir>/patch.diff to /repo, confirms that the pinned suite still passes and the demo
# fails, runs the given property checks against the changed tree (evidence and replay files go to a
# scratch directory), and restores /repo.
export GOFLAGS=-mod=mod GOPROXY=off GOSUMDB=off GOTOOLCHAIN=local
seed=$1; pkg=$2; shift 2
cd /repo || exit 2
if ! git diff --quiet; then echo "REPO NOT CLEAN"; exit 2; fi
git apply "$seed/patch.diff" || { echo "PATCH DOES NOT APPLY"; exit 2; }
trap 'cd /repo; git checkout -q -- .; rm -f /repo/$pkg/zz_seed_demo_test.go' EXIT
suite=pass; go test -vet=off -count=1 ./... >/tmp/seed_suite.log 2>&1 || suite=FAIL
cp "$seed/demo_test.go" /repo/$pkg/zz_seed_demo_test.go
demo=passes; (cd /repo/$pkg && go test -vet=off -count=1 -run 'TestSeedDemo' . >/tmp/seed_demo.log 2>&1) || demo=fails
rm -f /repo/$pkg/zz_seed_demo_test.go
echo "suite=$suite demo(with patch)=$demo"
ev=$(mktemp -d)
for p in "$@"; do
  out=$(cd /verif && GOVC_EVIDENCE_DIR=$ev ./check $p quick 2>&1); code=$?
  nviol=$(echo "$out" | grep -c '^VIOLATION')
  first=$(echo "$out" | grep -A1 '^VIOLATION' | grep -v '^VIOLATION' | head -1 | cut -c1-170)
  echo "check $p: exit=$code violations=$nviol $first"
done
rm -rf $ev
