package main

// Witness search: when an obligation of a function fails, look for an input of the REAL function on
// which one of its contract clauses is false.
//
// Candidates come from the solver's (possibly tentative) model of the failed obligation and from a
// small enumeration over the literals of the function. Each candidate is run on the real code
// (a generated in-package test injected with `go test -overlay`), the inputs and the real outputs are
// then substituted into the contract clauses as constants, and a clause counts as violated only when
// the solver proves the ground instance false (`assert clause` is unsat) while the preconditions are
// proved true for that input. Nothing here decides a property: it only runs after an obligation
// failed, and turns "no-failing-input-found" into a failing input of the real code when it can.

import (
	"encoding/base64"
	"encoding/json"
	"fmt"
	"go/ast"
	"go/constant"
	"go/token"
	"go/types"
	"os"
	"os/exec"
	"path/filepath"
	"sort"
	"strconv"
	"strings"
	"sync"
	"time"
	"unicode/utf8"
)

// cval is a concrete Go value as exchanged with the generated test.
type cval struct {
	K   string   `json:"k"` // str int bool struct err strs opaque
	S   string   `json:"s,omitempty"`
	I   string   `json:"i,omitempty"`
	B   bool     `json:"b,omitempty"`
	F   []cval   `json:"f,omitempty"`
	L   []string `json:"l,omitempty"`
	Nil bool     `json:"nil,omitempty"`
	Msg string   `json:"msg,omitempty"`
}

func cvStr(s string) cval { return cval{K: "str", S: base64.StdEncoding.EncodeToString([]byte(s))} }
func (c cval) str() string {
	b, _ := base64.StdEncoding.DecodeString(c.S)
	return string(b)
}

type witParam struct {
	name string
	t    types.Type
	recv bool
}

type witRecord struct {
	I     int    `json:"i"`
	Panic string `json:"panic,omitempty"`
	R     []cval `json:"r,omitempty"`
}

type Witness struct {
	Func    string   `json:"function"`
	Pkg     string   `json:"pkg"`
	Inputs  []cval   `json:"inputs"`
	Call    string   `json:"call"`
	Result  string   `json:"result"`
	Clauses []string `json:"violated_clauses"`
	Tried   int      `json:"candidates_run_on_real_code"`
	Checked int      `json:"candidates_checked_against_clauses"`
	Source  string   `json:"candidate_source"`
}

// ---------------------------------------------------------------------------
// which types can be made concrete

func witKind(t types.Type, depth int) string {
	if depth > 3 {
		return ""
	}
	switch u := t.(type) {
	case *types.Named:
		if isErrorLike(t) {
			return "err"
		}
		if isBuffer(t) {
			return ""
		}
		if st, ok := u.Underlying().(*types.Struct); ok {
			for i := 0; i < st.NumFields(); i++ {
				if witKind(st.Field(i).Type(), depth+1) == "" {
					return ""
				}
			}
			return "struct"
		}
		if _, ok := u.Underlying().(*types.Interface); ok {
			return ""
		}
		return witKind(u.Underlying(), depth)
	case *types.Basic:
		switch {
		case u.Info()&types.IsBoolean != 0:
			return "bool"
		case u.Info()&types.IsInteger != 0:
			return "int"
		case u.Info()&types.IsString != 0:
			return "str"
		}
	case *types.Slice:
		if isByteSlice(t) {
			return "str"
		}
		if b, ok := u.Elem().Underlying().(*types.Basic); ok && b.Info()&types.IsString != 0 {
			return "strs"
		}
		if nm, ok := u.Elem().(*types.Named); ok {
			if st, ok := nm.Underlying().(*types.Struct); ok && st.NumFields() == 1 {
				if b, ok := st.Field(0).Type().Underlying().(*types.Basic); ok && b.Info()&types.IsString != 0 {
					return "strs"
				}
			}
		}
		if isEmptyInterface(u.Elem()) && depth == 0 {
			return "ifaces" // the arguments of a sanitizer: strings and safehtml values (and pointers to them)
		}
	case *types.Struct:
		for i := 0; i < u.NumFields(); i++ {
			if witKind(u.Field(i).Type(), depth+1) == "" {
				return ""
			}
		}
		return "struct"
	case *types.Pointer:
		if isErrorLike(t) {
			return "err"
		}
	case *types.Interface:
		if isErrorLike(t) {
			return "err"
		}
	}
	return ""
}

func structOf(t types.Type) (*types.Struct, string) {
	switch u := t.(type) {
	case *types.Named:
		if st, ok := u.Underlying().(*types.Struct); ok {
			return st, u.Obj().Name()
		}
	case *types.Struct:
		return u, ""
	}
	return nil, ""
}

func (fx *FuncCtx) witParams() ([]witParam, bool) {
	sig := fx.obj.Type().(*types.Signature)
	if sig.Variadic() && witKind(sig.Params().At(sig.Params().Len()-1).Type(), 0) != "ifaces" {
		return nil, false
	}
	var ps []witParam
	if r := sig.Recv(); r != nil {
		if witKind(r.Type(), 0) == "" || witKind(r.Type(), 0) == "err" {
			return nil, false
		}
		ps = append(ps, witParam{name: r.Name(), t: r.Type(), recv: true})
	}
	for i := 0; i < sig.Params().Len(); i++ {
		v := sig.Params().At(i)
		k := witKind(v.Type(), 0)
		if k == "" || k == "err" {
			return nil, false
		}
		ps = append(ps, witParam{name: v.Name(), t: v.Type()})
	}
	for i := 0; i < sig.Results().Len(); i++ {
		if k := witKind(sig.Results().At(i).Type(), 0); k == "" || k == "ifaces" {
			return nil, false
		}
	}
	return ps, true
}

// ---------------------------------------------------------------------------
// concrete values <-> engine values, Go expressions

func numeral(s string) Term {
	if strings.HasPrefix(s, "-") {
		return "(- " + s[1:] + ")"
	}
	return s
}

func (fx *FuncCtx) concreteVal(t types.Type, c cval) Val {
	switch witKind(t, 0) {
	case "str":
		return fx.strLit(c.str())
	case "int":
		return VInt{numeral(c.I)}
	case "bool":
		if c.B {
			return VBool{"true"}
		}
		return VBool{"false"}
	case "err":
		if c.Nil {
			return VErr{"0"}
		}
		e := fx.declare(sortInt, "wit_err")
		fx.emit(fmt.Sprintf("(assert (<= 1 %s))", e))
		return VErr{e}
	case "struct":
		st, name := structOf(t)
		v := VStruct{TName: name, F: map[string]Val{}}
		for i := 0; i < st.NumFields(); i++ {
			f := st.Field(i)
			v.Names = append(v.Names, f.Name())
			if i < len(c.F) {
				v.F[f.Name()] = fx.concreteVal(f.Type(), c.F[i])
			} else {
				v.F[f.Name()] = fx.zero(f.Type())
			}
		}
		return v
	case "ifaces":
		v := VIfaces{N: fmt.Sprintf("%d", len(c.F)), Tag: "((as const (Array Int Int)) 0)", B: fx.constArrArr(), O: "((as const (Array Int Int)) 0)", L: "((as const (Array Int Int)) 0)"}
		for i, e := range c.F {
			sv := fx.strLit(e.str())
			v = VIfaces{N: v.N,
				Tag: fx.name(sortArr, "wit", fmt.Sprintf("(store %s %d %s)", v.Tag, i, numeral(e.I))),
				B:   fx.name(sortArrArr, "wib", fmt.Sprintf("(store %s %d %s)", v.B, i, sv.B)),
				O:   fx.name(sortArr, "wio", fmt.Sprintf("(store %s %d %s)", v.O, i, sv.O)),
				L:   fx.name(sortArr, "wil", fmt.Sprintf("(store %s %d %s)", v.L, i, sv.L))}
		}
		return v
	case "strs":
		z, ok := fx.zero(t).(VStrs)
		if !ok {
			z = fx.nilStrs()
			if sl, ok := t.Underlying().(*types.Slice); ok {
				if nm, ok := sl.Elem().(*types.Named); ok {
					if st, ok := nm.Underlying().(*types.Struct); ok && st.NumFields() == 1 {
						z.Wrap, z.WrapField = nm.Obj().Name(), st.Field(0).Name()
					}
				}
			}
		}
		cur := z
		for _, e := range c.L {
			b, _ := base64.StdEncoding.DecodeString(e)
			s := fx.strLit(string(b))
			cur = VStrs{
				B:    fx.name(sortArrArr, "wsb", fmt.Sprintf("(store %s %s %s)", cur.B, cur.N, s.B)),
				O:    fx.name(sortArr, "wso", fmt.Sprintf("(store %s %s %s)", cur.O, cur.N, s.O)),
				L:    fx.name(sortArr, "wsl", fmt.Sprintf("(store %s %s %s)", cur.L, cur.N, s.L)),
				N:    fx.name(sortInt, "wsn", sAdd(cur.N, "1")),
				Wrap: cur.Wrap, WrapField: cur.WrapField,
			}
		}
		return cur
	}
	return VOpaque{}
}

type goImports struct {
	self *types.Package
	used map[string]string // path -> name
}

func (g *goImports) qual(p *types.Package) string {
	if p == g.self {
		return ""
	}
	g.used[p.Path()] = p.Name()
	return p.Name()
}

func (g *goImports) goExpr(t types.Type, c cval) string {
	ts := types.TypeString(t, g.qual)
	switch witKind(t, 0) {
	case "str":
		if isByteSlice(t) {
			return "[]byte(" + strconv.Quote(c.str()) + ")"
		}
		if _, ok := t.(*types.Basic); ok {
			return strconv.Quote(c.str())
		}
		return ts + "(" + strconv.Quote(c.str()) + ")"
	case "int":
		if _, ok := t.(*types.Basic); ok {
			return ts + "(" + c.I + ")"
		}
		return ts + "(" + c.I + ")"
	case "bool":
		if _, ok := t.(*types.Basic); ok {
			return fmt.Sprint(c.B)
		}
		return ts + "(" + fmt.Sprint(c.B) + ")"
	case "struct":
		st, _ := structOf(t)
		var fs []string
		for i := 0; i < st.NumFields() && i < len(c.F); i++ {
			fs = append(fs, st.Field(i).Name()+": "+g.goExpr(st.Field(i).Type(), c.F[i]))
		}
		return ts + "{" + strings.Join(fs, ", ") + "}"
	case "ifaces":
		var es []string
		for _, e := range c.F {
			es = append(es, g.ifaceExpr(e))
		}
		return "[]interface{}{" + strings.Join(es, ", ") + "}"
	case "strs":
		sl := t.Underlying().(*types.Slice)
		var es []string
		for _, e := range c.L {
			b, _ := base64.StdEncoding.DecodeString(e)
			if nm, ok := sl.Elem().(*types.Named); ok {
				if st, ok := nm.Underlying().(*types.Struct); ok {
					es = append(es, "{"+st.Field(0).Name()+": "+strconv.Quote(string(b))+"}")
					continue
				}
				es = append(es, types.TypeString(nm, g.qual)+"("+strconv.Quote(string(b))+")")
				continue
			}
			es = append(es, strconv.Quote(string(b)))
		}
		if len(c.L) == 0 && c.Nil {
			return ts + "(nil)"
		}
		return ts + "{" + strings.Join(es, ", ") + "}"
	}
	return "nil"
}

var tagTypeNames = map[int]string{tagHTML: "HTML", tagScript: "Script", tagStyle: "Style", tagStyleSheet: "StyleSheet", tagURL: "URL",
	tagTrustedResourceURL: "TrustedResourceURL", tagIdentifier: "Identifier"}

// ifaceExpr writes one sanitizer argument: a string, a safehtml value made with the unchecked
// conversions (the only way to give it arbitrary contents) or a pointer to one of these.
func (g *goImports) ifaceExpr(e cval) string {
	tag, _ := strconv.Atoi(e.I)
	ptr := false
	if tag > tagPtrBase && tag < tagPtrBase+10 {
		ptr, tag = true, tag-tagPtrBase
	}
	q := strconv.Quote(e.str())
	var val, typ string
	switch {
	case tag == tagString:
		val, typ = q, "string"
	case tagTypeNames[tag] != "":
		g.used["github.com/google/safehtml/uncheckedconversions"] = "uncheckedconversions"
		g.used["github.com/google/safehtml"] = "safehtml"
		val, typ = "uncheckedconversions."+tagTypeNames[tag]+"FromStringKnownToSatisfyTypeContract("+q+")", "safehtml."+tagTypeNames[tag]
	default:
		return "nil"
	}
	if ptr {
		return "func() *" + typ + " { v := " + val + "; return &v }()"
	}
	return val
}

func showCval(t types.Type, c cval) string {
	g := &goImports{used: map[string]string{}}
	switch c.K {
	case "err":
		if c.Nil {
			return "nil"
		}
		return "error(" + strconv.Quote(c.Msg) + ")"
	case "opaque":
		return "?"
	}
	if witKind(t, 0) == "err" {
		return "nil"
	}
	return g.goExpr(t, c)
}

// ---------------------------------------------------------------------------
// candidates

// zeroCval is the zero value of t.
func zeroCval(t types.Type) cval {
	switch witKind(t, 0) {
	case "str":
		return cvStr("")
	case "int":
		return cval{K: "int", I: "0"}
	case "bool":
		return cval{K: "bool"}
	case "struct":
		st, _ := structOf(t)
		c := cval{K: "struct"}
		for i := 0; i < st.NumFields(); i++ {
			c.F = append(c.F, zeroCval(st.Field(i).Type()))
		}
		return c
	case "strs":
		return cval{K: "strs", Nil: true}
	case "ifaces":
		return cval{K: "ifaces"}
	}
	return cval{K: "opaque"}
}

// intCandidates: the constants of a named integer type declared in its package, else a few numbers.
func intCandidates(t types.Type) []string {
	var out []string
	seen := map[string]bool{}
	add := func(s string) {
		if !seen[s] {
			seen[s] = true
			out = append(out, s)
		}
	}
	if nm, ok := t.(*types.Named); ok && nm.Obj().Pkg() != nil {
		sc := nm.Obj().Pkg().Scope()
		type kv struct {
			v int64
		}
		var vals []int64
		for _, n := range sc.Names() {
			if c, ok := sc.Lookup(n).(*types.Const); ok && types.Identical(c.Type(), t) {
				if v, ok := constant.Int64Val(c.Val()); ok {
					vals = append(vals, v)
				}
			}
		}
		sort.Slice(vals, func(i, j int) bool { return vals[i] < vals[j] })
		for _, v := range vals {
			add(fmt.Sprint(v))
		}
		if len(vals) > 0 {
			add(fmt.Sprint(vals[len(vals)-1] + 1)) // one past the last declared constant
			return out
		}
	}
	for _, s := range []string{"0", "1", "2", "3", "-1", "7", "64", "255"} {
		if b, ok := t.Underlying().(*types.Basic); ok && b.Info()&types.IsUnsigned != 0 && strings.HasPrefix(s, "-") {
			continue
		}
		add(s)
	}
	return out
}

// funcAlphabet: symbols (short strings) to build inputs from, most specific first: the character and
// short string literals of the function, the code points written as numbers in the function and in the
// package-level tables it mentions (with their neighbours: boundaries of ranges), the bytes of longer
// literals, and a few generic ones.
func (fx *FuncCtx) funcAlphabet() []string {
	seen := map[string]bool{}
	var out []string
	add := func(s string) {
		if s != "" && !seen[s] && len(out) < 96 {
			seen[s] = true
			out = append(out, s)
		}
	}
	addBytes := func(s string) {
		for i := 0; i < len(s); i++ {
			add(s[i : i+1])
		}
	}
	addRune := func(v int64) {
		if v >= 0 && v < 0x80 {
			add(string([]byte{byte(v)}))
		} else if v >= 0x80 && v <= 0x10FFFF && !(v >= 0xD800 && v <= 0xDFFF) {
			add(string(rune(v)))
			if v <= 0xFF {
				add(string([]byte{byte(v)})) // the lone byte as well
			}
		}
	}
	var lits []string
	var nums []int64
	tables := map[*types.Var]bool{}
	info := fx.pkg.TypesInfo
	collect := func(root ast.Node, intoNums *[]int64, withLits bool) {
		ast.Inspect(root, func(n ast.Node) bool {
			switch x := n.(type) {
			case *ast.BasicLit:
				switch x.Kind {
				case token.CHAR:
					if r, _, _, err := strconv.UnquoteChar(strings.Trim(x.Value, "'"), '\''); err == nil && withLits {
						lits = append(lits, string(r))
					}
				case token.STRING:
					if s, err := strconv.Unquote(x.Value); err == nil && withLits {
						lits = append(lits, s)
					}
				case token.INT:
					if v, err := strconv.ParseInt(x.Value, 0, 64); err == nil && v > 1 {
						*intoNums = append(*intoNums, v)
					}
				}
			case *ast.Ident:
				if v, ok := info.Uses[x].(*types.Var); ok && v.Pkg() == fx.pkg.Types && v.Parent() == fx.pkg.Types.Scope() {
					tables[v] = true
				}
			}
			return true
		})
	}
	collect(fx.decl, &nums, true)
	sort.SliceStable(lits, func(i, j int) bool { return len(lits[i]) < len(lits[j]) })
	for _, s := range lits {
		if len(s) <= 2 || utf8.RuneCountInString(s) == 1 {
			add(s)
		}
	}
	add("a")
	for _, v := range nums {
		addRune(v)
	}
	// package-level tables mentioned by the function
	var tnums []int64
	for _, f := range fx.pkg.Syntax {
		for _, d := range f.Decls {
			gd, ok := d.(*ast.GenDecl)
			if !ok || gd.Tok != token.VAR {
				continue
			}
			for _, sp := range gd.Specs {
				vs := sp.(*ast.ValueSpec)
				for i, id := range vs.Names {
					if v, ok := info.Defs[id].(*types.Var); ok && tables[v] && i < len(vs.Values) {
						var dummy []int64
						collect(vs.Values[i], &dummy, false)
						tnums = append(tnums, dummy...)
					}
				}
			}
		}
	}
	if len(tnums) > 24 {
		tnums = tnums[:24]
	}
	for _, v := range tnums {
		addRune(v)
	}
	for _, v := range append(nums, tnums...) {
		addRune(v - 1)
		addRune(v + 1)
	}
	for _, s := range lits {
		if len(s) <= 12 {
			addBytes(s)
		}
	}
	for _, b := range []string{" ", "A", "0", "<", "\"", "\n", "\x80", "/", ":", "&", ";", "-", ".", "%", "\t", "'", ">", "=", "\x00", "\u00e9", "\f", "\r", "\v", "\\", ",", "(", ")", "\x7f", "\ufffd", "\u2028"} {
		add(b)
	}
	return out
}

// funcLiterals: whole string literals of the function (useful as fragments of inputs).
func (fx *FuncCtx) funcLiterals() []string {
	var lits []string
	seen := map[string]bool{}
	ast.Inspect(fx.decl, func(n ast.Node) bool {
		if bl, ok := n.(*ast.BasicLit); ok && bl.Kind == token.STRING {
			if s, err := strconv.Unquote(bl.Value); err == nil && len(s) > 0 && len(s) <= 24 && !seen[s] {
				seen[s] = true
				lits = append(lits, s)
			}
		}
		return true
	})
	return lits
}

func strCandidates(alpha []string, frags []string, limit int) []string {
	out := []string{""}
	seen := map[string]bool{"": true}
	add := func(s string) {
		if !seen[s] && len(out) < limit {
			seen[s] = true
			out = append(out, s)
		}
	}
	for _, b := range alpha {
		add(b)
	}
	for _, f := range frags {
		add(f)
	}
	// all strings by length over the leading symbols until the limit
	core := alpha
	if len(core) > 12 {
		core = core[:12]
	}
	// pairs over the whole alphabet come before longer strings over its core
	for _, a := range alpha {
		for _, b := range alpha {
			add(a + b)
		}
	}
	level := []string{""}
	for l := 1; l <= 6 && len(out) < limit; l++ {
		var next []string
		for _, p := range level {
			for _, b := range core {
				next = append(next, p+b)
				add(p + b)
			}
			if len(out) >= limit {
				break
			}
		}
		level = next
		if len(level) > 40000 {
			break
		}
	}
	for _, f := range frags {
		for _, b := range alpha {
			add(f + b)
			add(b + f)
		}
	}
	return out
}

// candidatesFor lists values of type t, the most interesting first; base (from the solver model) leads.
func (fx *FuncCtx) candidatesFor(t types.Type, alpha []string, frags []string, limit int) []cval {
	switch witKind(t, 0) {
	case "str":
		var out []cval
		for _, s := range strCandidates(alpha, frags, limit) {
			out = append(out, cvStr(s))
		}
		return out
	case "int":
		var out []cval
		for _, s := range intCandidates(t) {
			out = append(out, cval{K: "int", I: s})
		}
		return out
	case "bool":
		return []cval{{K: "bool"}, {K: "bool", B: true}}
	case "struct":
		// one field at a time away from the zero value, then pairs of the first fields
		st, _ := structOf(t)
		z := zeroCval(t)
		out := []cval{z}
		per := make([][]cval, st.NumFields())
		for i := 0; i < st.NumFields(); i++ {
			per[i] = fx.candidatesFor(st.Field(i).Type(), alpha, frags, 40)
		}
		clone := func(c cval) cval {
			n := c
			n.F = append([]cval(nil), c.F...)
			return n
		}
		for i := range per {
			for _, v := range per[i] {
				c := clone(z)
				c.F[i] = v
				out = append(out, c)
			}
		}
		for i := 0; i < len(per) && len(out) < limit; i++ {
			for j := i + 1; j < len(per) && len(out) < limit; j++ {
				for _, a := range per[i] {
					for _, b := range per[j] {
						if len(out) >= limit {
							break
						}
						c := clone(z)
						c.F[i], c.F[j] = a, b
						out = append(out, c)
					}
				}
			}
		}
		return out
	case "ifaces":
		// one argument of every kind with short contents, then two arguments
		ss := strCandidates(alpha, frags, 14)
		tags := []int{tagString, tagHTML, tagScript, tagStyle, tagStyleSheet, tagURL, tagTrustedResourceURL, tagIdentifier, tagPtrBase + tagString, tagPtrBase + tagHTML, tagPtrBase + tagURL}
		one := func(tag int, s string) cval {
			return cval{K: "iface", I: fmt.Sprint(tag), S: base64.StdEncoding.EncodeToString([]byte(s))}
		}
		out := []cval{{K: "ifaces"}}
		for _, s := range ss {
			for _, tg := range tags {
				out = append(out, cval{K: "ifaces", F: []cval{one(tg, s)}})
			}
		}
		for _, tg := range tags[:4] {
			out = append(out, cval{K: "ifaces", F: []cval{one(tg, "a"), one(tagString, "b")}})
		}
		return out
	case "strs":
		out := []cval{{K: "strs", Nil: true}}
		ss := strCandidates(alpha, frags, 30)
		for _, s := range ss {
			out = append(out, cval{K: "strs", L: []string{base64.StdEncoding.EncodeToString([]byte(s))}})
		}
		for _, a := range ss[:minInt(len(ss), 6)] {
			for _, b := range ss[:minInt(len(ss), 6)] {
				out = append(out, cval{K: "strs", L: []string{base64.StdEncoding.EncodeToString([]byte(a)), base64.StdEncoding.EncodeToString([]byte(b))}})
			}
		}
		return out
	}
	return []cval{zeroCval(t)}
}

func minInt(a, b int) int {
	if a < b {
		return a
	}
	return b
}

// product enumerates tuples in order of increasing index sum, up to limit tuples.
func productByWeight(lists [][]cval, limit int) [][]cval {
	var out [][]cval
	n := len(lists)
	if n == 0 {
		return [][]cval{{}}
	}
	maxSum := 0
	for _, l := range lists {
		maxSum += len(l) - 1
	}
	idx := make([]int, n)
	var rec func(k, rem int)
	rec = func(k, rem int) {
		if len(out) >= limit {
			return
		}
		if k == n-1 {
			if rem < len(lists[k]) {
				idx[k] = rem
				t := make([]cval, n)
				for i := range idx {
					t[i] = lists[i][idx[i]]
				}
				out = append(out, t)
			}
			return
		}
		for i := 0; i <= rem && i < len(lists[k]); i++ {
			idx[k] = i
			rec(k+1, rem-i)
		}
	}
	for s := 0; s <= maxSum && len(out) < limit; s++ {
		rec(0, s)
	}
	return out
}

// ---------------------------------------------------------------------------
// candidates from the solver model of the failed obligation

func (fx *FuncCtx) modelProbe(v Val, t types.Type, path string, probes *[]string, names *[]string) {
	add := func(term, name string) {
		*probes = append(*probes, term)
		*names = append(*names, name)
	}
	switch witKind(t, 0) {
	case "str":
		s, ok := v.(VStr)
		if !ok {
			return
		}
		add(s.L, path+"#len")
		for i := 0; i < 24; i++ {
			add(fmt.Sprintf("(select %s (+ %s %d))", s.B, s.O, i), fmt.Sprintf("%s#%d", path, i))
		}
	case "int":
		if iv, ok := v.(VInt); ok {
			add(iv.T, path)
		}
	case "bool":
		if bv, ok := v.(VBool); ok {
			add("(ite "+bv.T+" 1 0)", path)
		}
	case "struct":
		sv, ok := v.(VStruct)
		st, _ := structOf(t)
		if !ok || st == nil {
			return
		}
		for i := 0; i < st.NumFields(); i++ {
			fx.modelProbe(sv.F[st.Field(i).Name()], st.Field(i).Type(), path+"."+st.Field(i).Name(), probes, names)
		}
	case "ifaces":
		xs, ok := v.(VIfaces)
		if !ok {
			return
		}
		add(xs.N, path+"#n")
		for i := 0; i < 2; i++ {
			add(fmt.Sprintf("(select %s %d)", xs.Tag, i), fmt.Sprintf("%s#%d#tag", path, i))
			add(fmt.Sprintf("(select %s %d)", xs.L, i), fmt.Sprintf("%s#%d#len", path, i))
			for j := 0; j < 12; j++ {
				add(fmt.Sprintf("(select (select %s %d) (+ (select %s %d) %d))", xs.B, i, xs.O, i, j), fmt.Sprintf("%s#%d#%d", path, i, j))
			}
		}
	case "strs":
		xs, ok := v.(VStrs)
		if !ok {
			return
		}
		add(xs.N, path+"#n")
		for i := 0; i < 3; i++ {
			add(fmt.Sprintf("(select %s %d)", xs.L, i), fmt.Sprintf("%s#%d#len", path, i))
			for j := 0; j < 8; j++ {
				add(fmt.Sprintf("(select (select %s %d) (+ (select %s %d) %d))", xs.B, i, xs.O, i, j), fmt.Sprintf("%s#%d#%d", path, i, j))
			}
		}
	}
}

func modelCval(t types.Type, path string, vals map[string]int64) cval {
	switch witKind(t, 0) {
	case "str":
		n := vals[path+"#len"]
		if n < 0 {
			n = 0
		}
		if n > 24 {
			n = 24
		}
		var b []byte
		for i := int64(0); i < n; i++ {
			b = append(b, byte(vals[fmt.Sprintf("%s#%d", path, i)]&0xff))
		}
		return cvStr(string(b))
	case "int":
		return cval{K: "int", I: fmt.Sprint(vals[path])}
	case "bool":
		return cval{K: "bool", B: vals[path] != 0}
	case "struct":
		st, _ := structOf(t)
		c := cval{K: "struct"}
		for i := 0; i < st.NumFields(); i++ {
			c.F = append(c.F, modelCval(st.Field(i).Type(), path+"."+st.Field(i).Name(), vals))
		}
		return c
	case "ifaces":
		n := vals[path+"#n"]
		if n < 0 {
			n = 0
		}
		if n > 2 {
			n = 2
		}
		c := cval{K: "ifaces"}
		for i := int64(0); i < n; i++ {
			l := vals[fmt.Sprintf("%s#%d#len", path, i)]
			if l < 0 {
				l = 0
			}
			if l > 12 {
				l = 12
			}
			var b []byte
			for j := int64(0); j < l; j++ {
				b = append(b, byte(vals[fmt.Sprintf("%s#%d#%d", path, i, j)]&0xff))
			}
			tag := vals[fmt.Sprintf("%s#%d#tag", path, i)]
			if !(tag >= 1 && tag <= int64(tagIdentifier) || tag > tagPtrBase && tag <= tagPtrBase+int64(tagIdentifier)) {
				tag = tagString
			}
			c.F = append(c.F, cval{K: "iface", I: fmt.Sprint(tag), S: base64.StdEncoding.EncodeToString(b)})
		}
		return c
	case "strs":
		n := vals[path+"#n"]
		if n <= 0 {
			return cval{K: "strs", Nil: true}
		}
		if n > 3 {
			n = 3
		}
		c := cval{K: "strs"}
		for i := int64(0); i < n; i++ {
			l := vals[fmt.Sprintf("%s#%d#len", path, i)]
			if l < 0 {
				l = 0
			}
			if l > 8 {
				l = 8
			}
			var b []byte
			for j := int64(0); j < l; j++ {
				b = append(b, byte(vals[fmt.Sprintf("%s#%d#%d", path, i, j)]&0xff))
			}
			c.L = append(c.L, base64.StdEncoding.EncodeToString(b))
		}
		return c
	}
	return zeroCval(t)
}

// modelCandidate asks the solver for the parameter values in a model of the failed obligation.
func (fx *FuncCtx) modelCandidate(ob *Obligation, ps []witParam) ([]cval, bool) {
	if ob == nil || ob.Script != "" || fx.entry == nil {
		return nil, false
	}
	var probes, names []string
	for _, p := range ps {
		obj := fx.params[p.name]
		if obj == nil {
			return nil, false
		}
		v, ok := fx.entry.env[obj]
		if !ok {
			return nil, false
		}
		fx.modelProbe(v, p.t, p.name, &probes, &names)
	}
	if len(probes) == 0 {
		return nil, false
	}
	var script string
	func() {
		defer func() { recover() }()
		script = fx.scriptForMode(ob, true)
	}()
	if script == "" {
		return nil, false
	}
	script = strings.Replace(script, "(check-sat)\n(get-model)\n", "", 1)
	var b strings.Builder
	b.WriteString(script)
	for i, t := range probes {
		fmt.Fprintf(&b, "(declare-const wit!probe%d Int)\n(assert (= wit!probe%d %s))\n", i, i, t)
	}
	b.WriteString("(check-sat)\n")
	for i := range probes {
		fmt.Fprintf(&b, "(get-value (wit!probe%d))\n", i)
	}
	file := scratchFile("wm", ".smt2")
	os.WriteFile(file, []byte(b.String()), 0o644)
	defer os.Remove(file)
	out, _ := exec.Command("z3-new", "-T:10", file).CombinedOutput()
	txt := stripWarnings(string(out))
	lines := strings.Split(txt, "\n")
	if len(lines) == 0 || strings.TrimSpace(lines[0]) == "unsat" {
		return nil, false
	}
	vals := map[string]int64{}
	found := 0
	for _, l := range lines[1:] {
		l = strings.TrimSpace(l)
		if !strings.HasPrefix(l, "((wit!probe") {
			continue
		}
		l = strings.TrimSuffix(strings.TrimPrefix(l, "((wit!probe"), "))")
		k := strings.Index(l, " ")
		if k < 0 {
			continue
		}
		idx, err := strconv.Atoi(l[:k])
		if err != nil || idx >= len(names) {
			continue
		}
		v := strings.TrimSpace(l[k+1:])
		neg := false
		if strings.HasPrefix(v, "(- ") {
			neg = true
			v = strings.TrimSuffix(strings.TrimPrefix(v, "(- "), ")")
		}
		n, err := strconv.ParseInt(v, 10, 64)
		if err != nil {
			continue
		}
		if neg {
			n = -n
		}
		vals[names[idx]] = n
		found++
	}
	if found == 0 {
		return nil, false
	}
	var tuple []cval
	for _, p := range ps {
		tuple = append(tuple, modelCval(p.t, p.name, vals))
	}
	return tuple, true
}

// ---------------------------------------------------------------------------
// running candidates on the real code

const witDumper = `
type govcCV struct {
	K   string   ` + "`json:\"k\"`" + `
	S   string   ` + "`json:\"s,omitempty\"`" + `
	I   string   ` + "`json:\"i,omitempty\"`" + `
	B   bool     ` + "`json:\"b,omitempty\"`" + `
	F   []govcCV ` + "`json:\"f,omitempty\"`" + `
	L   []string ` + "`json:\"l,omitempty\"`" + `
	Nil bool     ` + "`json:\"nil,omitempty\"`" + `
	Msg string   ` + "`json:\"msg,omitempty\"`" + `
}

var govcErrType = reflect.TypeOf((*error)(nil)).Elem()

func govcB64(s string) string { return base64.StdEncoding.EncodeToString([]byte(s)) }

func govcBytes(v reflect.Value) string {
	b := make([]byte, v.Len())
	for i := range b {
		b[i] = byte(v.Index(i).Uint())
	}
	return string(b)
}

func govcDump(v reflect.Value, top bool) govcCV {
	if top && v.Type().Implements(govcErrType) || top && v.Kind() == reflect.Interface && v.Type() == govcErrType {
		if (v.Kind() == reflect.Interface || v.Kind() == reflect.Ptr) && v.IsNil() {
			return govcCV{K: "err", Nil: true}
		}
		msg := ""
		func() {
			defer func() { recover() }()
			msg = v.Interface().(error).Error()
		}()
		return govcCV{K: "err", Msg: msg}
	}
	switch v.Kind() {
	case reflect.String:
		return govcCV{K: "str", S: govcB64(v.String())}
	case reflect.Bool:
		return govcCV{K: "bool", B: v.Bool()}
	case reflect.Int, reflect.Int8, reflect.Int16, reflect.Int32, reflect.Int64:
		return govcCV{K: "int", I: fmt.Sprint(v.Int())}
	case reflect.Uint, reflect.Uint8, reflect.Uint16, reflect.Uint32, reflect.Uint64, reflect.Uintptr:
		return govcCV{K: "int", I: fmt.Sprint(v.Uint())}
	case reflect.Slice:
		if v.Type().Elem().Kind() == reflect.Uint8 {
			return govcCV{K: "str", S: govcB64(govcBytes(v))}
		}
		c := govcCV{K: "strs", Nil: v.IsNil()}
		for i := 0; i < v.Len(); i++ {
			e := v.Index(i)
			if e.Kind() == reflect.Struct && e.NumField() == 1 {
				e = e.Field(0)
			}
			if e.Kind() != reflect.String {
				return govcCV{K: "opaque"}
			}
			c.L = append(c.L, govcB64(e.String()))
		}
		return c
	case reflect.Struct:
		c := govcCV{K: "struct"}
		for i := 0; i < v.NumField(); i++ {
			c.F = append(c.F, govcDump(v.Field(i), false))
		}
		return c
	case reflect.Interface, reflect.Ptr:
		if v.Type().Implements(govcErrType) {
			return govcCV{K: "err", Nil: v.IsNil()}
		}
	}
	return govcCV{K: "opaque"}
}
`

func (p *Prog) runCandidates(o checkOpts, fx *FuncCtx, ps []witParam, tuples [][]cval) ([]witRecord, string, error) {
	pkgPath := fx.pkg.Types.Path()
	var pkgRel string
	for rel := range harnessFiles {
		if strings.HasSuffix(pkgPath, "/"+rel) || rel == "." && !strings.Contains(strings.TrimPrefix(pkgPath, "github.com/google/safehtml"), "/") {
			if rel != "." || pkgPath == "github.com/google/safehtml" {
				pkgRel = rel
			}
		}
	}
	if pkgRel == "" {
		return nil, "", fmt.Errorf("package %s has no replay directory", pkgPath)
	}
	g := &goImports{self: fx.pkg.Types, used: map[string]string{}}
	sig := fx.obj.Type().(*types.Signature)
	var fields []string
	for i, pm := range ps {
		fields = append(fields, fmt.Sprintf("P%d %s", i, types.TypeString(pm.t, g.qual)))
	}
	var rows []string
	for _, t := range tuples {
		var es []string
		for i, pm := range ps {
			es = append(es, fmt.Sprintf("P%d: %s", i, g.goExpr(pm.t, t[i])))
		}
		rows = append(rows, "\t\t{"+strings.Join(es, ", ")+"},")
	}
	var args []string
	call := fx.obj.Name()
	for i, pm := range ps {
		if pm.recv {
			call = fmt.Sprintf("in.P%d.%s", i, fx.obj.Name())
			continue
		}
		args = append(args, fmt.Sprintf("in.P%d", i))
	}
	if sig.Variadic() && len(args) > 0 {
		args[len(args)-1] += "..."
	}
	var rs, dumps []string
	for i := 0; i < sig.Results().Len(); i++ {
		rs = append(rs, fmt.Sprintf("r%d", i))
		dumps = append(dumps, fmt.Sprintf("govcDump(reflect.ValueOf(&r%d).Elem(), true)", i))
	}
	assign := ""
	if len(rs) > 0 {
		assign = strings.Join(rs, ", ") + " := "
	}
	var b strings.Builder
	fmt.Fprintf(&b, "package %s\n\nimport (\n\t\"encoding/base64\"\n\t\"encoding/json\"\n\t\"fmt\"\n\t\"os\"\n\t\"reflect\"\n\t\"testing\"\n", fx.pkg.Types.Name())
	var body strings.Builder
	fmt.Fprintf(&body, "func TestGovcWitness(t *testing.T) {\n\tins := []struct{ %s }{\n%s\n\t}\n", strings.Join(fields, "; "), strings.Join(rows, "\n"))
	body.WriteString("\tvar out []map[string]interface{}\n\tfor i, in := range ins {\n\t\t_ = in\n\t\tfunc() {\n\t\t\trec := map[string]interface{}{\"i\": i}\n")
	body.WriteString("\t\t\tdefer func() {\n\t\t\t\tif r := recover(); r != nil {\n\t\t\t\t\trec[\"panic\"] = fmt.Sprint(r)\n\t\t\t\t}\n\t\t\t\tout = append(out, rec)\n\t\t\t}()\n")
	fmt.Fprintf(&body, "\t\t\t%s%s(%s)\n", assign, call, strings.Join(args, ", "))
	fmt.Fprintf(&body, "\t\t\trec[\"r\"] = []govcCV{%s}\n", strings.Join(dumps, ", "))
	body.WriteString("\t\t}()\n\t}\n\tdata, _ := json.Marshal(out)\n\tos.WriteFile(os.Getenv(\"VERIF_OUT\"), data, 0o644)\n\t_ = base64.StdEncoding\n}\n")
	var paths []string
	for path := range g.used {
		paths = append(paths, path)
	}
	sort.Strings(paths)
	for _, path := range paths {
		fmt.Fprintf(&b, "\t%q\n", path)
	}
	b.WriteString(")\n")
	b.WriteString(witDumper)
	b.WriteString(body.String())
	src := scratchFile("wit", "_test.go")
	if err := os.WriteFile(src, []byte(b.String()), 0o644); err != nil {
		return nil, "", err
	}
	outFile := scratchFile("witout", ".json")
	ovFile := scratchFile("witov", ".json")
	target := filepath.Join(o.repoDir, pkgRel, "zz_govc_witness_test.go")
	ov, _ := json.Marshal(map[string]map[string]string{"Replace": {target: src}})
	os.WriteFile(ovFile, ov, 0o644)
	cmd := exec.Command("go", "test", "-overlay", ovFile, "-vet=off", "-timeout", "60s", "-count=1", "-run", "^TestGovcWitness$", ".")
	cmd.Dir = filepath.Join(o.repoDir, pkgRel)
	cmd.Env = append(os.Environ(), "GOFLAGS=-mod=mod", "GOPROXY=off", "GOSUMDB=off", "GOTOOLCHAIN=local", "VERIF_OUT="+outFile)
	out, err := cmd.CombinedOutput()
	data, rerr := os.ReadFile(outFile)
	if rerr != nil {
		return nil, pkgRel, fmt.Errorf("witness run failed: %v: %s", err, truncate(string(out), 1200))
	}
	var recs []witRecord
	if err := json.Unmarshal(data, &recs); err != nil {
		return nil, pkgRel, err
	}
	return recs, pkgRel, nil
}

// ---------------------------------------------------------------------------
// checking a run against the contract clauses

type witVerdict struct {
	violated []string
	preOK    bool
	note     string
}

var witMu sync.Mutex

// concreteCheck substitutes the inputs and the real outputs into the contract: it returns the labels
// of the ensures clauses whose ground instance the solver proves false, provided the requires clauses
// are proved true for the input.
func (p *Prog) concreteCheck(key string, ps []witParam, in []cval, rec witRecord) (v witVerdict) {
	witMu.Lock() // script generation shares the bound-variable counter
	locked := true
	unlock := func() {
		if locked {
			locked = false
			witMu.Unlock()
		}
	}
	defer func() {
		unlock()
		if r := recover(); r != nil {
			switch e := r.(type) {
			case unsupported:
				v.note = "outside the modelled subset: " + e.msg
			case contractDrift:
				v.note = e.msg
			default:
				v.note = fmt.Sprint(r)
			}
		}
	}()
	fx, err := p.newFuncCtx(key)
	if err != nil {
		v.note = err.Error()
		return
	}
	fx.concrete = true
	con := fx.con
	sig := fx.obj.Type().(*types.Signature)
	info := fx.pkg.TypesInfo
	st := &State{pc: "true", env: map[types.Object]Val{}}
	k := 0
	if fx.decl.Recv != nil && len(fx.decl.Recv.List) == 1 && len(fx.decl.Recv.List[0].Names) == 1 {
		id := fx.decl.Recv.List[0].Names[0]
		obj := info.Defs[id]
		st.env[obj] = fx.concreteVal(obj.Type(), in[k])
		fx.params[id.Name] = obj
		k++
	} else if sig.Recv() != nil {
		k++
	}
	for _, f := range fx.decl.Type.Params.List {
		for _, id := range f.Names {
			obj := info.Defs[id]
			if id.Name == "_" {
				k++
				continue
			}
			st.env[obj] = fx.concreteVal(obj.Type(), in[k])
			fx.params[id.Name] = obj
			k++
		}
	}
	fx.resNames = con.Results
	fx.entry = st.clone()
	var res []Val
	for i := 0; i < sig.Results().Len(); i++ {
		if i < len(rec.R) {
			res = append(res, fx.concreteVal(sig.Results().At(i).Type(), rec.R[i]))
		}
	}
	pos := fx.decl.Body.Lbrace + 1
	var reqs []Term
	for _, rq := range con.Requires {
		ce := fx.clauseEv(st, pos, nil)
		reqs = append(reqs, ce.boolOf(ce.ev(rq.Expr), rq.Expr))
	}
	type cl struct {
		label string
		t     Term
	}
	var ens []cl
	for i, en := range con.Ensures {
		lbl := en.Label
		if lbl == "" {
			lbl = fmt.Sprintf("ensures%d", i+1)
		}
		func() {
			defer func() {
				if r := recover(); r != nil {
					if _, ok := r.(unsupported); !ok {
						panic(r)
					}
				}
			}()
			ce := fx.clauseEv(st, pos, res)
			ens = append(ens, cl{lbl, ce.boolOf(ce.ev(en.Expr), en.Expr)})
		}()
	}
	mk := func(goal Term) string {
		ob := &Obligation{Name: "wit", Prefix: len(fx.lines), PC: "true", Goal: goal, fx: fx}
		return fx.scriptForMode(ob, true)
	}
	var all []Term
	for _, c := range ens {
		all = append(all, c.t)
	}
	if len(all) == 0 {
		return
	}
	allScript := mk(sNot(sAnd(all...))) // asserts the conjunction: unsat = some clause is false
	unlock()
	if r := solveOne(allScript, 4); r != VUnsat {
		return
	}
	witMu.Lock()
	locked = true
	var reqScript string
	if len(reqs) > 0 {
		reqScript = mk(sAnd(reqs...)) // asserts the negation: unsat = the preconditions hold
	}
	scripts := make([]string, len(ens))
	for i, c := range ens {
		scripts[i] = mk(sNot(c.t))
	}
	unlock()
	if reqScript != "" {
		if r := solveOne(reqScript, 5); r != VUnsat {
			v.note = "input not proved to satisfy the preconditions"
			return
		}
	}
	v.preOK = true
	for i, c := range ens {
		if solveOne(scripts[i], 5) == VUnsat {
			v.violated = append(v.violated, c.label)
		}
	}
	if len(v.violated) == 0 {
		v.violated = []string{"(conjunction of the ensures clauses)"}
	}
	return
}

func solveOne(script string, timeoutS int) Verdict {
	file := scratchFile("wq", ".smt2")
	os.WriteFile(file, []byte(script), 0o644)
	defer os.Remove(file)
	out, _ := exec.Command("z3-new", fmt.Sprintf("-T:%d", timeoutS), file).CombinedOutput()
	first := strings.TrimSpace(strings.SplitN(stripWarnings(string(out)), "\n", 2)[0])
	switch first {
	case "unsat":
		return VUnsat
	case "sat":
		return VSat
	}
	return VUnknown
}

// ---------------------------------------------------------------------------
// the search

var witCache = map[string]*Witness{}
var witNotes = map[string]string{}

func (p *Prog) witnessSearch(o checkOpts, ob *Obligation) (*Witness, string) {
	fx := ob.fx
	if fx == nil {
		return nil, "not a function-level obligation"
	}
	if w, ok := witCache[fx.key]; ok {
		return w, witNotes[fx.key]
	}
	w, note := p.witnessSearch1(o, ob)
	witCache[fx.key], witNotes[fx.key] = w, note
	return w, note
}

func (p *Prog) witnessSearch1(o checkOpts, ob *Obligation) (*Witness, string) {
	fx := ob.fx
	ps, ok := fx.witParams()
	if !ok {
		return nil, "witness search does not apply: the function takes or returns values that cannot be written down as constants (pointers, maps, interfaces, variadic arguments)"
	}
	if len(fx.con.Ensures) == 0 {
		return nil, "the function has no ensures clause to test a run against"
	}
	t0 := time.Now()
	var tuples [][]cval
	source := map[int]string{}
	if mc, ok := fx.modelCandidate(ob, ps); ok {
		source[len(tuples)] = "solver model of the failed obligation"
		tuples = append(tuples, mc)
	}
	alpha := fx.funcAlphabet()
	frags := fx.funcLiterals()
	per := 4000
	if len(ps) > 1 {
		per = 400
	}
	var lists [][]cval
	for _, pm := range ps {
		l := fx.candidatesFor(pm.t, alpha, frags, per)
		if len(tuples) > 0 {
			// the model's value of this parameter leads its list, so that neighbours of the model come early
			l = append([]cval{tuples[0][len(lists)]}, l...)
		}
		lists = append(lists, l)
	}
	enum := productByWeight(lists, 3000)
	for _, t := range enum {
		tuples = append(tuples, t)
	}
	recs, pkgRel, err := p.runCandidates(o, fx, ps, tuples)
	if err != nil {
		return nil, err.Error()
	}
	// check the runs against the clauses: the model candidate first, then by size, in parallel batches
	type job struct {
		idx int
	}
	deadline := t0.Add(25 * time.Second)
	checked := 0
	var found *Witness
	var mu sync.Mutex
	sem := make(chan struct{}, 14)
	var wg sync.WaitGroup
	sig := fx.obj.Type().(*types.Signature)
	for bi := 0; bi < len(recs) && found == nil && time.Now().Before(deadline); bi += 56 {
		end := bi + 56
		if end > len(recs) {
			end = len(recs)
		}
		for i := bi; i < end; i++ {
			rec := recs[i]
			if rec.Panic != "" || rec.I >= len(tuples) {
				continue
			}
			wg.Add(1)
			go func(rec witRecord) {
				defer wg.Done()
				sem <- struct{}{}
				defer func() { <-sem }()
				v := p.concreteCheck(fx.key, ps, tuples[rec.I], rec)
				mu.Lock()
				defer mu.Unlock()
				checked++
				if len(v.violated) > 0 && v.preOK && (found == nil || rec.I < found.Tried) {
					var ins, outs []string
					for k, pm := range ps {
						ins = append(ins, showCval(pm.t, tuples[rec.I][k]))
					}
					for k := 0; k < sig.Results().Len() && k < len(rec.R); k++ {
						outs = append(outs, showCval(sig.Results().At(k).Type(), rec.R[k]))
					}
					src := source[rec.I]
					if src == "" {
						src = "enumeration over the literals of the function"
					}
					found = &Witness{Func: fx.key, Pkg: pkgRel, Inputs: tuples[rec.I], Call: fx.short + "(" + strings.Join(ins, ", ") + ")", Result: strings.Join(outs, ", "), Clauses: v.violated, Tried: rec.I, Source: src}
				}
			}(rec)
		}
		wg.Wait()
	}
	if found != nil {
		found.Tried = len(recs)
		found.Checked = checked
		return found, ""
	}
	return nil, fmt.Sprintf("witness search: %d candidate inputs run on the real code, %d runs checked against the ensures clauses in %.0fs, none proved to violate one", len(recs), checked, time.Since(t0).Seconds())
}

// replayWitness re-runs a recorded witness on the current code and re-checks the clauses.
func (p *Prog) replayWitness(o checkOpts, w *Witness) (bool, string) {
	fd := p.funcDecl[w.Func]
	if fd == nil {
		return false, "function " + w.Func + " no longer exists"
	}
	fx, err := p.newFuncCtx(w.Func)
	if err != nil {
		return false, err.Error()
	}
	ps, ok := fx.witParams()
	if !ok || len(ps) != len(w.Inputs) {
		return false, "the signature of " + w.Func + " changed"
	}
	recs, _, err := p.runCandidates(o, fx, ps, [][]cval{w.Inputs})
	if err != nil || len(recs) != 1 {
		return false, fmt.Sprint("replay failed to run: ", err)
	}
	if recs[0].Panic != "" {
		return false, "the call panics: " + recs[0].Panic
	}
	v := p.concreteCheck(w.Func, ps, w.Inputs, recs[0])
	sig := fx.obj.Type().(*types.Signature)
	var outs []string
	for k := 0; k < sig.Results().Len() && k < len(recs[0].R); k++ {
		outs = append(outs, showCval(sig.Results().At(k).Type(), recs[0].R[k]))
	}
	if len(v.violated) > 0 && v.preOK {
		return true, fmt.Sprintf("%s = %s violates clause(s) %s", w.Call, strings.Join(outs, ", "), strings.Join(v.violated, ", "))
	}
	return false, fmt.Sprintf("%s = %s: no clause proved false (%s)", w.Call, strings.Join(outs, ", "), v.note)
}

var _ = utf8.RuneError

// ---------------------------------------------------------------------------
// witnesslist FUNC PKG KIND ARG : "input" "input" ...
//
// Inputs worth trying on the real code when an obligation of FUNC fails and neither a recorded
// finding nor the witness search produced a failing input: boundary values taken from the property
// statement (DEL, C1 controls, noncharacters, partial escapes, ...). Each is run through the replay
// kind KIND of package PKG, whose oracle is written from the statement. Like the witness search this
// runs only after a failure and decides nothing.
type witnessList struct {
	Func, Pkg, Kind, Arg string
	Inputs              []string
}

func (p *Prog) witnessLists() []witnessList {
	var out []witnessList
	for _, r := range p.spec.Raw["witnesslist"] {
		text := r.Text
		k := strings.Index(text, " : ")
		if k < 0 {
			continue
		}
		f := strings.Fields(text[:k])
		if len(f) != 4 {
			continue
		}
		wl := witnessList{Func: f[0], Pkg: f[1], Kind: f[2], Arg: f[3]}
		rest := strings.TrimSpace(text[k+3:])
		for len(rest) > 0 {
			if rest[0] != '"' {
				break
			}
			q, err := strconv.QuotedPrefix(rest)
			if err != nil {
				break
			}
			v, err := strconv.Unquote(q)
			if err != nil {
				break
			}
			wl.Inputs = append(wl.Inputs, v)
			rest = strings.TrimSpace(rest[len(q):])
		}
		out = append(out, wl)
	}
	return out
}

// tryWitnessLists runs the listed inputs of the function an obligation belongs to.
func (p *Prog) tryWitnessLists(o checkOpts, ob *Obligation) (recipe map[string]interface{}, detail string, found bool) {
	if ob.fx == nil {
		return nil, "", false
	}
	if r, d, ok := p.tryWitnessListsFor(o, ob.fx.short); ok {
		return r, d, ok
	}
	return p.tryWitnessListsFor(o, ob.fx.key)
}

func (p *Prog) tryWitnessListsFor(o checkOpts, fn string) (recipe map[string]interface{}, detail string, found bool) {
	for _, wl := range p.witnessLists() {
		if wl.Func != fn {
			continue
		}
		var jobs []replayJob
		for i, in := range wl.Inputs {
			jobs = append(jobs, replayJob{ID: fmt.Sprint(i), Kind: wl.Kind, Args: map[string]string{wl.Arg: in}})
		}
		rs, err := p.runHarness(o, wl.Pkg, jobs)
		if err != nil {
			continue
		}
		for _, r := range rs {
			if !r.OK {
				idx, _ := strconv.Atoi(r.ID)
				if idx < 0 || idx >= len(wl.Inputs) {
					continue
				}
				return map[string]interface{}{"pkg": wl.Pkg, "kind": wl.Kind, "arg": wl.Arg, "inputs": []string{wl.Inputs[idx]}},
					"REPRODUCED on the real code (listed boundary input): " + r.Detail, true
			}
		}
	}
	return nil, "", false
}
