package main

// Contract-mode builtins (ghost functions) and spec functions.

import (
	"fmt"
	"go/ast"
	"go/token"
	"strconv"
	"strings"
)

var quantSeq int

func (e *Ev) evGhostCall(x *ast.CallExpr) Val {
	id, ok := unparen(x.Fun).(*ast.Ident)
	if !ok {
		// method-like calls in contracts: x.String() is identity for safe types
		if sel, ok := unparen(x.Fun).(*ast.SelectorExpr); ok && len(x.Args) == 0 {
			base := e.ev(sel.X)
			switch sel.Sel.Name {
			case "String":
				if st, ok := base.(VStruct); ok {
					if s, ok := st.F["str"]; ok {
						return s
					}
					if s, ok := st.F["src"]; ok {
						return s
					}
				}
			}
		}
		e.unsupp(x, "unsupported call in contract")
	}
	fx := e.fx
	arg := func(i int) Val {
		if i >= len(x.Args) {
			panic(unsupported{fmt.Sprintf("%s: missing argument %d", id.Name, i)})
		}
		return e.ev(x.Args[i])
	}
	switch id.Name {
	case "len":
		switch a := arg(0).(type) {
		case VStr:
			return VInt{a.L}
		case VStrs:
			return VInt{a.N}
		case VIfaces:
			return VInt{a.N}
		case VBuf:
			return VInt{a.Len}
		case VSeq:
			fx.useSeq = true
			return VInt{"(bs_len " + a.T + ")"}
		case VRunes:
			return VInt{a.N}
		case VRefs:
			return VInt{a.N}
		}
		e.unsupp(x, "len of %T", arg(0))
	case "implies":
		return VBool{sImp(e.boolOf(arg(0), x), e.boolOf(arg(1), x))}
	case "iff":
		return VBool{sEq(e.boolOf(arg(0), x), e.boolOf(arg(1), x))}
	case "ite":
		c := e.boolOf(arg(0), x)
		return fx.iteValPure(c, arg(1), arg(2))
	case "old":
		if e.oldEv == nil {
			e.unsupp(x, "old() has no meaning here")
		}
		o := *e.oldEv
		o.bound = e.bound
		return o.ev(x.Args[0])
	case "entry":
		// entry(x): the value x had when the enclosing loop was entered
		if e.loopEntryEv == nil {
			e.unsupp(x, "entry() is only meaningful in a loop invariant")
		}
		o := *e.loopEntryEv
		o.bound = e.bound
		return o.ev(x.Args[0])
	case "forallref":
		// forallref(p, P): P for every reference p (an integer)
		kid, ok := x.Args[0].(*ast.Ident)
		if !ok || len(x.Args) != 2 {
			e.unsupp(x, "forallref(p, P) expects an identifier and a body")
		}
		quantSeq++
		kn := fmt.Sprintf("%s!%d", kid.Name, quantSeq)
		sub := *e
		sub.bound = map[string]Val{}
		for k, v := range e.bound {
			sub.bound[k] = v
		}
		sub.bound[kid.Name] = VInt{kn}
		body := sub.boolOf(sub.ev(x.Args[1]), x.Args[1])
		return VBool{fmt.Sprintf("(forall ((%s Int)) %s)", kn, body)}
	case "forallkey":
		// forallkey(k, P): P for every string contents k (a ghost sequence)
		kid, ok := x.Args[0].(*ast.Ident)
		if !ok || len(x.Args) != 2 {
			e.unsupp(x, "forallkey(k, P) expects an identifier and a body")
		}
		fx.useSeq = true
		quantSeq++
		kn := fmt.Sprintf("%s!%d", kid.Name, quantSeq)
		sub := *e
		sub.bound = map[string]Val{}
		for k, v := range e.bound {
			sub.bound[k] = v
		}
		sub.bound[kid.Name] = VSeq{kn}
		body := sub.boolOf(sub.ev(x.Args[1]), x.Args[1])
		return VBool{fmt.Sprintf("(forall ((%s BSeq)) %s)", kn, body)}
	case "before":
		if e.beforeEv == nil {
			e.unsupp(x, "before() is only meaningful in a step clause or a loop hint")
		}
		o := *e.beforeEv
		o.bound = e.bound
		return o.ev(x.Args[0])
	case "lcat":
		// left-nested concatenation ((a.b).c).d
		fx.useSeq = true
		t := e.seqArg(arg(0), x)
		for i := 1; i < len(x.Args); i++ {
			r := e.seqArg(arg(i), x)
			if t == "bs_empty" {
				t = r
			} else if r != "bs_empty" {
				t = "(bs_cat " + t + " " + r + ")"
			}
		}
		return VSeq{t}
	case "forall", "exists":
		if len(x.Args) != 4 {
			e.unsupp(x, "%s(k, lo, hi, P) expects 4 arguments", id.Name)
		}
		kid, ok := x.Args[0].(*ast.Ident)
		if !ok {
			e.unsupp(x, "bound variable must be an identifier")
		}
		lo := e.intOf(arg(1), x)
		hi := e.intOf(arg(2), x)
		quantSeq++
		kn := fmt.Sprintf("%s!%d", kid.Name, quantSeq)
		sub := *e
		sub.bound = map[string]Val{}
		for k, v := range e.bound {
			sub.bound[k] = v
		}
		sub.bound[kid.Name] = VInt{kn}
		body := sub.boolOf(sub.ev(x.Args[3]), x.Args[3])
		var bases []string
		fx.prog.allAbsBases(parseSexpr(body), kn, &bases)
		if len(bases) > 3 {
			bases = bases[:3]
		}
		var versions []Term
		for _, o := range bases {
			nb, nlo, nhi, ok := fx.prog.absolutizeWith(body, lo, hi, kn, o)
			if !ok {
				continue
			}
			r := sAnd(sLe(nlo, kn), sLt(kn, nhi))
			if id.Name == "forall" {
				versions = append(versions, fmt.Sprintf("(forall ((%s Int)) %s)", kn, sImp(r, nb)))
			} else {
				versions = append(versions, fmt.Sprintf("(exists ((%s Int)) %s)", kn, sAnd(r, nb)))
			}
		}
		if len(versions) > 0 {
			// the renderings are logically equivalent; each offers a different trigger
			if id.Name == "forall" {
				return VBool{sAnd(versions...)}
			}
			return VBool{sOr(versions...)}
		}
		rng := sAnd(sLe(lo, kn), sLt(kn, hi))
		if id.Name == "forall" {
			return VBool{fmt.Sprintf("(forall ((%s Int)) %s)", kn, sImp(rng, body))}
		}
		return VBool{fmt.Sprintf("(exists ((%s Int)) %s)", kn, sAnd(rng, body))}
	case "same":
		return VBool{e.sameVal(arg(0), arg(1), x)}
	case "identical":
		// identical(a, b): every component equal, including the representation of strings and lists
		// (used to name a callee's result: the result IS the named value)
		return VBool{e.identicalVal(arg(0), arg(1), x)}
	case "namedlike":
		// namedlike(proto, "NAME", args...): a value shaped like proto whose every component is an
		// uninterpreted function NAME_<component> of the arguments (result naming for callees whose
		// result is a struct; presumes the result is a function of the listed arguments)
		if len(x.Args) < 2 {
			e.unsupp(x, "namedlike(proto, \"NAME\", args...)")
		}
		bl, ok := x.Args[1].(*ast.BasicLit)
		if !ok || bl.Kind != token.STRING {
			e.unsupp(x, "namedlike needs the name as a string literal")
		}
		nm, _ := strconv.Unquote(bl.Value)
		var ats, asorts []string
		for i := 2; i < len(x.Args); i++ {
			e.flattenArg(arg(i), &ats, &asorts, x)
		}
		fx.trusted["result naming "+nm+": the named result is a function of the listed arguments (presumes determinism and independence of hidden state)"] = true
		return e.namedShape(arg(0), "nm_"+sanitizeIdent(nm), ats, asorts, x)
	case "sameview":
		a, ok1 := arg(0).(VStr)
		b, ok2 := arg(1).(VStr)
		if !ok1 || !ok2 {
			e.unsupp(x, "sameview needs two strings")
		}
		return VBool{sAnd(sEq(a.B, b.B), sEq(a.O, b.O), sEq(a.L, b.L))}
	case "subview":
		// subview(a, s, lo, hi): a is exactly the view s[lo:hi]
		a, ok1 := arg(0).(VStr)
		s, ok2 := arg(1).(VStr)
		if !ok1 || !ok2 {
			e.unsupp(x, "subview needs two strings")
		}
		lo, hi := e.intOf(arg(2), x), e.intOf(arg(3), x)
		return VBool{sAnd(sEq(a.B, s.B), sEq(a.O, sAdd(s.O, lo)), sEq(a.L, sSub(hi, lo)))}
	case "sub":
		// sub(s, lo, hi): the view s[lo:hi] without bounds obligations
		s, ok := arg(0).(VStr)
		if !ok {
			e.unsupp(x, "sub needs a string")
		}
		lo, hi := e.intOf(arg(1), x), e.intOf(arg(2), x)
		return VStr{B: s.B, O: sAdd(s.O, lo), L: sSub(hi, lo)}
	case "seq":
		fx.useSeq = true
		return VSeq{e.seqArg(arg(0), x)}
	case "cat":
		fx.useSeq = true
		var ts []Term
		for i := range x.Args {
			ts = append(ts, e.seqArg(arg(i), x))
		}
		return VSeq{seqCat(ts...)}
	case "unit":
		fx.useSeq = true
		return VSeq{"(bs_unit " + e.intOf(arg(0), x) + ")"}
	case "seqeq":
		fx.useSeq = true
		return VBool{sEq(e.seqArg(arg(0), x), e.seqArg(arg(1), x))}
	case "slen":
		fx.useSeq = true
		return VInt{"(bs_len " + e.seqArg(arg(0), x) + ")"}
	case "inlang":
		lid, ok := x.Args[0].(*ast.Ident)
		if !ok {
			e.unsupp(x, "inlang needs a language name")
		}
		fx.prog.ensureAnyOf(lid.Name)
		if _, ok := fx.prog.spec.Langs[lid.Name]; !ok {
			if !strings.HasPrefix(lid.Name, "re_") {
				panic(unsupported{"unknown language " + lid.Name})
			}
			pat, err := fx.prog.codeRegexPattern(strings.TrimPrefix(lid.Name, "re_"))
			if err != nil {
				panic(unsupported{err.Error()})
			}
			fx.prog.registerCodeRegex(lid.Name, pat)
		}
		if fx.concrete {
			// witness search: membership of a constant string is computed on the automaton
			if sv, ok := arg(1).(VStr); ok && sv.Lit != nil {
				if in, err := fx.prog.langAccepts(lid.Name, *sv.Lit); err == nil {
					if in {
						return VBool{"true"}
					}
					return VBool{"false"}
				}
			}
		}
		fx.useSeq = true
		fx.langsUsed[lid.Name] = true
		return VBool{"(inlang_" + lid.Name + " " + e.seqArg(arg(1), x) + ")"}
	case "joinof":
		xs, ok := arg(0).(VStrs)
		if !ok {
			e.unsupp(x, "joinof needs a []string")
		}
		fx.useSeq = true
		fx.specUsed["sortedof"] = true
		return VSeq{"(joinof " + xs.B + " " + xs.O + " " + xs.L + " " + xs.N + " " + e.seqArg(arg(1), x) + ")"}
	case "haskey":
		m, ok := arg(0).(VStrMap)
		if !ok {
			e.unsupp(x, "haskey needs a map[string]string")
		}
		return e.strMapLookup(m, arg(1), true, x).(VTuple)[1]
	case "mapget":
		m, ok := arg(0).(VStrMap)
		if !ok {
			e.unsupp(x, "mapget needs a map[string]string")
		}
		return e.strMapLookup(m, arg(1), false, x)
	case "matches":
		// matches(re, s): the regexp value re matches s
		rv, ok := arg(0).(VRegex)
		if !ok {
			e.unsupp(x, "matches needs a regexp")
		}
		ln := "re_" + rv.Var
		if !rv.Param {
			fx.prog.registerCodeRegex(ln, rv.Pattern)
		}
		fx.langsUsed[ln] = true
		fx.useSeq = true
		return VBool{"(inlang_" + ln + " " + e.seqArg(arg(1), x) + ")"}
	case "matchat":
		// matchat(s, k, pat): s[k:k+len(pat)] == pat, no bounds implied
		s, ok1 := arg(0).(VStr)
		p, ok2 := arg(2).(VStr)
		if !ok1 || !ok2 {
			e.unsupp(x, "matchat needs strings")
		}
		k := e.intOf(arg(1), x)
		if p.Lit != nil {
			var cs []Term
			for i := 0; i < len(*p.Lit); i++ {
				cs = append(cs, fmt.Sprintf("(= (select %s %s) %d)", s.B, sAdd(s.O, sAdd(k, fmt.Sprintf("%d", i))), (*p.Lit)[i]))
			}
			return VBool{sAnd(cs...)}
		}
		quantSeq++
		j := fmt.Sprintf("j!%d", quantSeq)
		return VBool{fmt.Sprintf("(forall ((%s Int)) (=> (and (<= %s %s) (< %s (+ %s %s))) (= (select %s (+ %s (+ %s (- %s %s)))) (select %s %s))))", j, p.O, j, j, p.O, p.L, s.B, s.O, k, j, p.O, p.B, j)}
	case "inset":
		// inset(c, chars): the byte c occurs in chars
		c := e.intOf(arg(0), x)
		cs, ok := arg(1).(VStr)
		if !ok {
			e.unsupp(x, "inset needs a string")
		}
		if cs.Lit != nil {
			var ds []Term
			for i := 0; i < len(*cs.Lit); i++ {
				ds = append(ds, sEq(c, fmt.Sprintf("%d", (*cs.Lit)[i])))
			}
			return VBool{sOr(ds...)}
		}
		quantSeq++
		j := fmt.Sprintf("j!%d", quantSeq)
		return VBool{fmt.Sprintf("(exists ((%s Int)) (and (<= 0 %s) (< %s %s) (= (select %s (+ %s %s)) %s)))", j, j, j, cs.L, cs.B, cs.O, j, c)}
	case "fields":
		// fields(s): the value strings.Fields(s) returns (uninterpreted; see assumed.spec)
		fx.useSeq = true
		fx.specUsed["fields_n"] = true
		sq := e.seqArg(arg(0), x)
		return VStrs{B: "(fields_b " + sq + ")", O: "(fields_o " + sq + ")", L: "(fields_l " + sq + ")", N: "(fields_n " + sq + ")"}
	case "single":
		// single(s): the one-element []string{s}
		sv, ok := arg(0).(VStr)
		if !ok {
			e.unsupp(x, "single needs a string")
		}
		if sv.Lit != nil && sv.B == "lit!" {
			sv = fx.strLit(*sv.Lit)
		}
		z := fx.nilStrs()
		return VStrs{B: "(store " + z.B + " 0 " + sv.B + ")", O: "(store " + z.O + " 0 " + sv.O + ")", L: "(store " + z.L + " 0 " + sv.L + ")", N: "1"}
	case "sameslice":
		a, ok1 := arg(0).(VStrs)
		b, ok2 := arg(1).(VStrs)
		if !ok1 || !ok2 {
			e.unsupp(x, "sameslice needs two []string")
		}
		return VBool{sAnd(sEq(a.B, b.B), sEq(a.O, b.O), sEq(a.L, b.L), sEq(a.N, b.N))}
	case "isnil":
		switch a := arg(0).(type) {
		case VErr:
			return VBool{sEq(a.T, "0")}
		case VRef:
			return VBool{sEq(a.T, "0")}
		case VMapRef:
			return VBool{sEq(a.T, "0")}
		case VInt:
			return VBool{sEq(a.T, "0")}
		case VNil:
			return VBool{"true"}
		case VSub:
			// the address of a by-value field of an object: nil exactly when the object is
			return VBool{sEq(a.Ref, "0")}
		}
		e.unsupp(x, "isnil of %T", arg(0))
	case "tag":
		if a, ok := arg(0).(VIface); ok {
			return VInt{a.Tag}
		}
		e.unsupp(x, "tag of %T", arg(0))
	case "basetag":
		// dynamic type after dereferencing pointers (what safehtmlutil.Indirect yields)
		if a, ok := arg(0).(VIface); ok {
			return VInt{fmt.Sprintf("(ite (and (<= %d %s) (< %s %d)) (- %s %d) %s)", tagPtrBase+1, a.Tag, a.Tag, tagPtrBase+10, a.Tag, tagPtrBase, a.Tag)}
		}
		e.unsupp(x, "basetag of %T", arg(0))
	case "contents":
		if a, ok := arg(0).(VIface); ok {
			return a.S
		}
		e.unsupp(x, "contents of %T", arg(0))
	case "at":
		// at(xs, i): element of a []string / []interface{} without bounds obligation
		i := e.intOf(arg(1), x)
		switch a := arg(0).(type) {
		case VStrs:
			return fx.strAt(a, i, true)
		case VIfaces:
			return fx.ifaceAt(a, i, true)
		case VStr:
			return fx.byteAt(a, i, true)
		case VRefs:
			return VRef{sSel(a.Arr, i), a.Elem}
		}
		e.unsupp(x, "at of %T", arg(0))
	}
	if v, ok := e.evHeapGhost(id.Name, x); ok {
		return v
	}
	if sf, ok := fx.prog.spec.Funcs[id.Name]; ok {
		return e.callSpecFunc(sf, x)
	}
	if sig, ok := builtinSpecSigs[id.Name]; ok {
		sf := &SpecFunc{Name: id.Name, Ret: sig[len(sig)-1]}
		for i, t := range sig[:len(sig)-1] {
			sf.Params = append(sf.Params, SpecParam{fmt.Sprintf("a%d", i), t})
		}
		return e.callSpecFunc(sf, x)
	}
	e.unsupp(x, "unknown ghost function %s", id.Name)
	return nil
}

// iteValPure is iteVal without naming (usable inside quantifier bodies).
func (fx *FuncCtx) iteValPure(c Term, a, b Val) Val {
	switch x := a.(type) {
	case VInt:
		return VInt{sIte(c, x.T, b.(VInt).T)}
	case VBool:
		return VBool{sIte(c, x.T, b.(VBool).T)}
	case VSeq:
		switch y := b.(type) {
		case VSeq:
			return VSeq{sIte(c, x.T, y.T)}
		case VStr:
			return VSeq{sIte(c, x.T, fx.seqOf(y))}
		}
	case VStr:
		switch y := b.(type) {
		case VStr:
			if x.Lit != nil || y.Lit != nil {
				return VSeq{sIte(c, fx.seqOf(x), fx.seqOf(y))}
			}
			return VStr{B: sIte(c, x.B, y.B), O: sIte(c, x.O, y.O), L: sIte(c, x.L, y.L)}
		case VSeq:
			return VSeq{sIte(c, fx.seqOf(x), y.T)}
		}
	case VErr:
		return VErr{sIte(c, x.T, b.(VErr).T)}
	case VStrs:
		y := b.(VStrs)
		return VStrs{B: sIte(c, x.B, y.B), O: sIte(c, x.O, y.O), L: sIte(c, x.L, y.L), N: sIte(c, x.N, y.N)}
	}
	panic(unsupported{fmt.Sprintf("ite over %T", a)})
}

var builtinSpecSigs = map[string][]string{
	"hex2lower": {"int", "seq"}, "hex6upper": {"int", "seq"}, "utf8enc": {"seq", "seq"}, "utf8dec": {"seq", "seq"},
	"utf8len": {"int", "int"}, "bs_nth": {"seq", "int", "int"}, "hexdigl": {"int", "int"}, "hexdigu": {"int", "int"},
}

func specSort(t string) string {
	switch t {
	case "int":
		return sortInt
	case "bool":
		return sortBool
	case "seq":
		return sortSeq
	case "arr":
		return sortArr
	}
	panic(unsupported{"unknown spec type " + t})
}

func (e *Ev) callSpecFunc(sf *SpecFunc, x *ast.CallExpr) Val {
	if len(x.Args) != len(sf.Params) {
		e.unsupp(x, "spec func %s expects %d arguments", sf.Name, len(sf.Params))
	}
	e.fx.specUsed[sf.Name] = true
	var ts []Term
	for i, p := range sf.Params {
		v := e.ev(x.Args[i])
		switch p.Type {
		case "int":
			ts = append(ts, e.intOf(v, x.Args[i]))
		case "bool":
			ts = append(ts, e.boolOf(v, x.Args[i]))
		case "seq":
			e.fx.useSeq = true
			ts = append(ts, e.seqArg(v, x.Args[i]))
		case "str":
			sv, ok := v.(VStr)
			if !ok {
				e.unsupp(x, "spec func %s: argument %d must be a string view", sf.Name, i+1)
			}
			if sv.Lit != nil && sv.B == "lit!" {
				sv = e.fx.strLit(*sv.Lit)
			}
			ts = append(ts, sv.B, sv.O, sv.L)
		case "strs":
			sv, ok := v.(VStrs)
			if !ok {
				e.unsupp(x, "spec func %s: argument %d must be a []string", sf.Name, i+1)
			}
			ts = append(ts, sv.B, sv.O, sv.L, sv.N)
		default:
			e.unsupp(x, "spec param type %s", p.Type)
		}
	}
	t := "(" + sf.Name + " " + strings.Join(ts, " ") + ")"
	if len(ts) == 0 {
		t = sf.Name
	}
	switch sf.Ret {
	case "int":
		return VInt{t}
	case "bool":
		return VBool{t}
	case "seq":
		e.fx.useSeq = true
		return VSeq{t}
	}
	e.unsupp(x, "spec return type %s", sf.Ret)
	return nil
}

// specFuncDef renders a spec function as SMT and reports the spec functions / languages it uses.
func (p *Prog) specFuncDef(sf *SpecFunc) (def string, uses map[string]bool, langs map[string]bool, useSeq bool) {
	if sf.Prerendered != "" {
		ls := map[string]bool{}
		for _, l := range sf.PreLangs {
			ls[l] = true
		}
		return sf.Prerendered, map[string]bool{}, ls, len(ls) > 0
	}
	fx := &FuncCtx{prog: p, counts: map[string]int{}, trusted: map[string]bool{}, langsUsed: map[string]bool{}, specUsed: map[string]bool{}}
	var ps []string
	bound := map[string]Val{}
	for _, pa := range sf.Params {
		if pa.Type == "str" {
			ps = append(ps, fmt.Sprintf("(%s_b (Array Int Int)) (%s_o Int) (%s_l Int)", pa.Name, pa.Name, pa.Name))
			bound[pa.Name] = VStr{B: pa.Name + "_b", O: pa.Name + "_o", L: pa.Name + "_l"}
			continue
		}
		if pa.Type == "strs" {
			ps = append(ps, fmt.Sprintf("(%s_sb (Array Int (Array Int Int))) (%s_so (Array Int Int)) (%s_sl (Array Int Int)) (%s_n Int)", pa.Name, pa.Name, pa.Name, pa.Name))
			bound[pa.Name] = VStrs{B: pa.Name + "_sb", O: pa.Name + "_so", L: pa.Name + "_sl", N: pa.Name + "_n"}
			continue
		}
		ps = append(ps, fmt.Sprintf("(%s %s)", pa.Name, specSort(pa.Type)))
		switch pa.Type {
		case "int":
			bound[pa.Name] = VInt{pa.Name}
		case "bool":
			bound[pa.Name] = VBool{pa.Name}
		case "seq":
			bound[pa.Name] = VSeq{pa.Name}
			fx.useSeq = true
		}
	}
	if sf.Ret == "seq" {
		fx.useSeq = true
	}
	sig := "(" + strings.Join(ps, " ") + ") " + specSort(sf.Ret)
	if sf.Uninterpreted {
		var ss []string
		for _, pa := range sf.Params {
			if pa.Type == "str" {
				ss = append(ss, sortArr, sortInt, sortInt)
				continue
			}
			if pa.Type == "strs" {
				ss = append(ss, sortArrArr, sortArr, sortArr, sortInt)
				continue
			}
			ss = append(ss, specSort(pa.Type))
		}
		return fmt.Sprintf("(declare-fun %s (%s) %s)", sf.Name, strings.Join(ss, " "), specSort(sf.Ret)), fx.specUsed, fx.langsUsed, fx.useSeq
	}
	ev := &Ev{fx: fx, st: &State{pc: "true"}, contract: true, bound: bound}
	v := ev.ev(sf.Body.Expr)
	var body Term
	switch sf.Ret {
	case "int":
		body = ev.intOf(v, sf.Body.Expr)
	case "bool":
		body = ev.boolOf(v, sf.Body.Expr)
	case "seq":
		body = ev.seqArg(v, sf.Body.Expr)
	}
	for _, l := range fx.lines {
		f := strings.Fields(l)
		if len(f) > 1 && (f[0] == "(declare-const" || f[0] == "(define-fun") && strings.Contains(body, f[1]) {
			panic(unsupported{"spec function " + sf.Name + " needs auxiliary declarations; use unit/cat instead of indexing string literals"})
		}
	}
	kw := "define-fun"
	if sf.Rec {
		kw = "define-fun-rec"
	}
	delete(fx.specUsed, sf.Name)
	hasStr := false
	for _, pa := range sf.Params {
		if pa.Type == "str" {
			hasStr = true
		}
	}
	_ = hasStr
	if sf.Opaque && !sf.Rec {
		// opaque encoding: the application itself is the trigger of quantifiers over positions
		var sorts, names []string
		for _, pa := range sf.Params {
			if pa.Type == "str" {
				sorts = append(sorts, sortArr, sortInt, sortInt)
				names = append(names, pa.Name+"_b", pa.Name+"_o", pa.Name+"_l")
				continue
			}
			if pa.Type == "strs" {
				sorts = append(sorts, sortArrArr, sortArr, sortArr, sortInt)
				names = append(names, pa.Name+"_sb", pa.Name+"_so", pa.Name+"_sl", pa.Name+"_n")
				continue
			}
			sorts = append(sorts, specSort(pa.Type))
			names = append(names, pa.Name)
		}
		app := "(" + sf.Name + " " + strings.Join(names, " ") + ")"
		p.rxMu.Lock()
		if p.opaqueDefs == nil {
			p.opaqueDefs = map[string]string{}
		}
		p.opaqueDefs[sf.Name] = body
		p.rxMu.Unlock()
		def := fmt.Sprintf("(declare-fun %s (%s) %s)\n(assert (forall (%s) (! (= %s %s) :pattern (%s))))", sf.Name, strings.Join(sorts, " "), specSort(sf.Ret), strings.Join(ps, " "), app, body, app)
		return def, fx.specUsed, fx.langsUsed, fx.useSeq
	}
	return fmt.Sprintf("(%s %s %s %s)", kw, sf.Name, sig, body), fx.specUsed, fx.langsUsed, fx.useSeq
}

// sameVal: structural equality (strings by contents, []string by identity of the slice value).
func (e *Ev) identicalVal(a, b Val, n ast.Node) Term {
	switch x := a.(type) {
	case VStr:
		if y, ok := b.(VStr); ok {
			return sAnd(sEq(x.B, y.B), sEq(x.O, y.O), sEq(x.L, y.L))
		}
	case VStrs:
		if y, ok := b.(VStrs); ok {
			return sAnd(sEq(x.N, y.N), sEq(x.B, y.B), sEq(x.O, y.O), sEq(x.L, y.L))
		}
	case VStruct:
		if y, ok := b.(VStruct); ok {
			var cs []Term
			for _, f := range x.Names {
				cs = append(cs, e.identicalVal(x.F[f], y.F[f], n))
			}
			return sAnd(cs...)
		}
	}
	return e.sameVal(a, b, n)
}

// flattenArg appends the SMT terms (and sorts) that stand for a value used as an argument of a naming
// function: strings by content, structs field by field.
func (e *Ev) flattenArg(v Val, ts, sorts *[]string, n ast.Node) {
	switch a := v.(type) {
	case VInt:
		*ts, *sorts = append(*ts, a.T), append(*sorts, sortInt)
	case VBool:
		*ts, *sorts = append(*ts, a.T), append(*sorts, sortBool)
	case VErr:
		*ts, *sorts = append(*ts, a.T), append(*sorts, sortInt)
	case VRef:
		*ts, *sorts = append(*ts, a.T), append(*sorts, sortInt)
	case VStr:
		e.fx.useSeq = true
		*ts, *sorts = append(*ts, e.fx.seqOf(a)), append(*sorts, sortSeq)
	case VSeq:
		*ts, *sorts = append(*ts, a.T), append(*sorts, sortSeq)
	case VStrs:
		*ts = append(*ts, a.B, a.O, a.L, a.N)
		*sorts = append(*sorts, sortArrArr, sortArr, sortArr, sortInt)
	case VStruct:
		for _, f := range a.Names {
			e.flattenArg(a.F[f], ts, sorts, n)
		}
	case VNil:
		*ts, *sorts = append(*ts, "0"), append(*sorts, sortInt)
	case VSub:
		*ts, *sorts = append(*ts, a.Ref), append(*sorts, sortInt)
	default:
		e.unsupp(n, "naming function argument of kind %T", v)
	}
}

// namedShape builds a value shaped like proto out of applications of per-component functions.
func (e *Ev) namedShape(proto Val, fname string, ats, asorts []string, n ast.Node) Val {
	fx := e.fx
	app := func(suffix, sort string) Term {
		f := fname + suffix
		if fx.namedFuns == nil {
			fx.namedFuns = map[string]bool{}
		}
		if !fx.namedFuns[f] {
			fx.namedFuns[f] = true
			fx.emit(fmt.Sprintf("(declare-fun %s (%s) %s)", f, strings.Join(asorts, " "), sort))
		}
		if len(ats) == 0 {
			return f
		}
		return "(" + f + " " + strings.Join(ats, " ") + ")"
	}
	switch p := proto.(type) {
	case VInt:
		return VInt{app("", sortInt)}
	case VBool:
		return VBool{app("", sortBool)}
	case VErr:
		return VErr{app("", sortInt)}
	case VRef:
		return VRef{app("", sortInt), p.Elem}
	case VStr:
		return VStr{B: app("_b", sortArr), O: app("_o", sortInt), L: app("_l", sortInt)}
	case VStrs:
		return VStrs{B: app("_sb", sortArrArr), O: app("_so", sortArr), L: app("_sl", sortArr), N: app("_n", sortInt), Wrap: p.Wrap, WrapField: p.WrapField}
	case VStruct:
		out := VStruct{TName: p.TName, Names: p.Names, F: map[string]Val{}}
		for _, f := range p.Names {
			out.F[f] = e.namedShape(p.F[f], fname+"_"+f, ats, asorts, n)
		}
		return out
	}
	e.unsupp(n, "naming function result of kind %T", proto)
	return nil
}

func (e *Ev) sameVal(a, b Val, n ast.Node) Term {
	switch x := a.(type) {
	case VInt:
		return sEq(x.T, b.(VInt).T)
	case VBool:
		return sEq(x.T, b.(VBool).T)
	case VErr:
		switch y := b.(type) {
		case VErr:
			return sEq(x.T, y.T)
		case VNil:
			return sEq(x.T, "0")
		}
	case VStr:
		return e.strEq(x, b.(VStr))
	case VStrs:
		y := b.(VStrs)
		return sAnd(sEq(x.N, y.N), sOr(sEq(x.N, "0"), sAnd(sEq(x.B, y.B), sEq(x.O, y.O), sEq(x.L, y.L))))
	case VStruct:
		y, ok := b.(VStruct)
		if !ok {
			break
		}
		var cs []Term
		for _, f := range x.Names {
			cs = append(cs, e.sameVal(x.F[f], y.F[f], n))
		}
		return sAnd(cs...)
	case VRef:
		return sEq(x.T, b.(VRef).T)
	case VOpaque:
		return "true"
	}
	e.unsupp(n, "same() over %T and %T", a, b)
	return ""
}

// bodyHasQuant reports whether a spec function body contains a quantifier, directly or through the
// macros it uses.
func (p *Prog) bodyHasQuant(body string, uses map[string]bool) bool {
	if strings.Contains(body, "(forall ") || strings.Contains(body, "(exists ") {
		return true
	}
	for u := range uses {
		sf, ok := p.spec.Funcs[u]
		if !ok || sf.Rec || sf.Uninterpreted {
			continue
		}
		def, uu, _, _ := p.specFuncDef(sf)
		if strings.HasPrefix(def, "(declare-fun") {
			continue // opaque: quantifier-free by construction
		}
		if p.bodyHasQuant(def, uu) {
			return true
		}
	}
	return false
}
