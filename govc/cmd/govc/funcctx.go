package main

// Per-function verification context: SMT script accumulation and obligations.

import (
	"fmt"
	"go/ast"
	"go/token"
	"go/types"
	"strings"
	"sync"

	"golang.org/x/tools/go/packages"
)

type Obligation struct {
	Name      string
	Func      string
	Kind      string // index, slice, post, pre, inv-init, inv-pres, decreases, nil, typeassert, panic, overflow, lemma, canary, cover
	Pos       string
	Prefix    int // number of script lines visible
	PC        Term
	Goal      Term
	Desc      string
	Expect    Verdict // VUnsat for proof obligations; VSat for cover; canary: must not be unsat
	fx        *FuncCtx
	Script    string // for stand-alone obligations (lemmas)
	Result    *SolveResult
	Vars      map[string]string // model var name -> Go-level description
	Serves    []string
	Canary    bool   // passes unless the solver proves unsat (vacuity guard); short timeout
	FindingID string // proving this obligation demonstrates a known finding (not a proof obligation of the property)
	// bounded stand-ins run on the real code: the job that ran (re-run by --replay)
	HarnessPkg string
	HarnessJob *replayJob
}

type FuncCtx struct {
	prog           *Prog
	pkg            *packages.Package
	decl           *ast.FuncDecl
	obj            *types.Func
	con            *Contract
	key            string
	short          string
	lines          []string
	obs            []*Obligation
	nfresh         int
	useSeq         bool
	loopOrd        map[ast.Node]int
	counts         map[string]int
	lits           map[string]string // literal text -> array const name
	entry          *State
	params         map[string]types.Object // contract-visible names -> objects
	results        []types.Object
	resNames       []string
	trusted        map[string]bool // assumed contracts used
	langsUsed      map[string]bool
	specUsed       map[string]bool
	modelVars      map[string]string
	ghostLocals    map[string]types.Object
	curLoopIdx     []types.Object
	globals        map[*types.Var]Val
	pcParts        map[string][]string
	namedFuns      map[string]bool
	pureGround     bool
	concrete       bool // witness search: parameters and results are constants
	pcAnd          map[string][2]string // pc name -> (narrowed pc, narrowing conditions)
	nclosure       int
	heapInit       map[string]Term
	arrAlloc       map[Term]Term
	pendingInitArr []Term
	loopEntry      []*Ev
	heapSort       map[string]string
	heapWritten    map[string]bool
	hdrOnce        sync.Once
	hdr            string
	hdrLines       []string
	taintOnce      sync.Once
	taint          *tainter
}

func (fx *FuncCtx) emit(line string) { fx.lines = append(fx.lines, line) }

func (fx *FuncCtx) freshName(hint string) string {
	fx.nfresh++
	h := sanitizeIdent(hint)
	return fmt.Sprintf("%s_%d", h, fx.nfresh)
}

func sanitizeIdent(s string) string {
	var b strings.Builder
	for _, r := range s {
		if r >= 'a' && r <= 'z' || r >= 'A' && r <= 'Z' || r >= '0' && r <= '9' || r == '_' {
			b.WriteRune(r)
		} else {
			b.WriteByte('_')
		}
	}
	if b.Len() == 0 {
		return "x"
	}
	return b.String()
}

// declare introduces an unconstrained constant.
func (fx *FuncCtx) declare(sort, hint string) Term {
	n := fx.freshName(hint)
	fx.emit(fmt.Sprintf("(declare-const %s %s)", n, sort))
	return n
}

// name binds a term to a fresh name (let-binding through define-fun).
func (fx *FuncCtx) name(sort, hint string, t Term) Term {
	if isAtom(t) {
		return t
	}
	n := fx.freshName(hint)
	fx.emit(fmt.Sprintf("(define-fun %s () %s %s)", n, sort, t))
	if hint == "pc" && strings.HasPrefix(t, "(and pc_") {
		// a path condition that narrows another one: remembered so that case splits over merged
		// paths can be pushed through the narrowing
		if k := strings.IndexByte(t[5:], ' '); k > 0 {
			if fx.pcAnd == nil {
				fx.pcAnd = map[string][2]string{}
			}
			fx.pcAnd[n] = [2]string{t[5 : 5+k], t[5+k+1 : len(t)-1]}
		}
	}
	return n
}

func isAtom(t Term) bool {
	return !strings.ContainsAny(t, " (")
}

func (fx *FuncCtx) assume(pc, fact Term) {
	if fact == "true" {
		return
	}
	// one assertion per top-level conjunct, so that relevance pruning works per fact
	for _, c := range topConjuncts(fact) {
		fx.emit("(assert " + sImp(pc, c) + ")")
	}
}

func topConjuncts(t Term) []Term {
	if !strings.HasPrefix(t, "(and ") {
		return []Term{t}
	}
	inner := t[5 : len(t)-1]
	var out []Term
	d := 0
	start := 0
	for i := 0; i < len(inner); i++ {
		switch inner[i] {
		case '(':
			d++
		case ')':
			d--
		case '|':
			// quoted symbol
			j := strings.IndexByte(inner[i+1:], '|')
			if j >= 0 {
				i += j + 1
			}
		case ' ':
			if d == 0 {
				if i > start {
					out = append(out, topConjuncts(inner[start:i])...)
				}
				start = i + 1
			}
		}
	}
	if start < len(inner) {
		out = append(out, topConjuncts(inner[start:])...)
	}
	return out
}

func (fx *FuncCtx) pos(p token.Pos) string {
	if !p.IsValid() {
		return ""
	}
	pp := fx.prog.fset.Position(p)
	return fmt.Sprintf("%s:%d", shortFile(pp.Filename), pp.Line)
}

// pcDisjuncts flattens a merged path condition into the path conditions it was merged from.
func (fx *FuncCtx) pcDisjuncts(pc Term, limit int) []Term {
	out := []Term{pc}
	for changed := true; changed && len(out) < limit; {
		changed = false
		var next []Term
		for _, p := range out {
			if parts, ok := fx.pcParts[p]; ok && len(out)+len(parts)-1 <= limit {
				next = append(next, parts...)
				changed = true
			} else if an, ok := fx.pcAnd[p]; ok && fx.con != nil && fx.con.Options["casesplit"] == "true" {
				sub := fx.pcDisjuncts(an[0], limit-len(out)+1)
				if len(sub) > 1 {
					for _, d := range sub {
						next = append(next, fx.name(sortBool, "pc", "(and "+d+" "+an[1]+")"))
					}
					changed = true
				} else {
					next = append(next, p)
				}
			} else {
				next = append(next, p)
			}
		}
		out = next
	}
	return out
}

// obligeSplit emits one obligation per merged path (case split), so that ite-merged values collapse.
func (fx *FuncCtx) obligeSplit(kind, label string, pos token.Pos, pc, goal Term, desc string) {
	if goal == "true" || !strings.Contains(goal, "(forall ") && !strings.Contains(goal, "(exists ") && !mentionsAny(goal, fx.prog.seqMarkers()) {
		fx.oblige(kind, label, pos, pc, goal, desc)
		return
	}
	ds := fx.pcDisjuncts(pc, 8)
	if len(ds) == 1 {
		fx.oblige(kind, label, pos, pc, goal, desc)
		return
	}
	for i, d := range ds {
		fx.oblige(kind, fmt.Sprintf("%s/path%d", label, i+1), pos, d, goal, desc)
	}
}

func (fx *FuncCtx) oblige(kind, label string, pos token.Pos, pc, goal Term, desc string) *Obligation {
	if goal == "true" {
		// trivially true goals are still recorded (they count as discharged by simplification)
	}
	fx.counts[kind+label]++
	nm := fmt.Sprintf("%s#%s", fx.short, label)
	if c := fx.counts[kind+label]; c > 1 || strings.HasSuffix(label, "@") {
		nm = fmt.Sprintf("%s#%s%d", fx.short, label, c)
	}
	ob := &Obligation{Name: nm, Func: fx.key, Kind: kind, Pos: fx.pos(pos), Prefix: len(fx.lines), PC: pc, Goal: goal, Desc: desc, Expect: VUnsat, fx: fx}
	if fx.con != nil {
		ob.Serves = fx.con.Serves
	}
	fx.obs = append(fx.obs, ob)
	return ob
}

// ordinal-labelled obligation: label gets a running number per (kind,label) always.
func (fx *FuncCtx) obligeN(kind, label string, pos token.Pos, pc, goal Term, desc string) *Obligation {
	fx.counts[kind+"/"+label]++
	nm := fmt.Sprintf("%s#%s%d", fx.short, label, fx.counts[kind+"/"+label])
	ob := &Obligation{Name: nm, Func: fx.key, Kind: kind, Pos: fx.pos(pos), Prefix: len(fx.lines), PC: pc, Goal: goal, Desc: desc, Expect: VUnsat, fx: fx}
	if fx.con != nil {
		ob.Serves = fx.con.Serves
	}
	fx.obs = append(fx.obs, ob)
	return ob
}

// ---------------------------------------------------------------------------
// Fresh values per Go type

const maxLen = "72057594037927936" // 2^56

func isByteSlice(t types.Type) bool {
	if s, ok := t.Underlying().(*types.Slice); ok {
		if b, ok := s.Elem().Underlying().(*types.Basic); ok && (b.Kind() == types.Uint8) {
			return true
		}
	}
	return false
}

func isErrorLike(t types.Type) bool {
	if types.Identical(t, types.Universe.Lookup("error").Type()) {
		return true
	}
	if p, ok := t.(*types.Pointer); ok {
		if n, ok := p.Elem().(*types.Named); ok && n.Obj().Name() == "Error" {
			return true
		}
	}
	return false
}

func isBufferPtr(t types.Type) bool {
	if p, ok := t.(*types.Pointer); ok {
		return isBuffer(p.Elem())
	}
	return false
}
func isBuffer(t types.Type) bool {
	if n, ok := t.(*types.Named); ok && n.Obj().Pkg() != nil {
		return n.Obj().Pkg().Path() == "bytes" && n.Obj().Name() == "Buffer"
	}
	return false
}

func isEmptyInterface(t types.Type) bool {
	if i, ok := t.Underlying().(*types.Interface); ok {
		return i.NumMethods() == 0
	}
	return false
}

func intRange(b *types.Basic) (lo, hi string, ok bool) {
	switch b.Kind() {
	case types.Uint8:
		return "0", "255", true
	case types.Int32:
		return "(- 2147483648)", "2147483647", true
	case types.Int, types.Int64:
		return "(- 9223372036854775808)", "9223372036854775807", true
	case types.Uint16:
		return "0", "65535", true
	case types.Int8:
		return "(- 128)", "127", true
	case types.Int16:
		return "(- 32768)", "32767", true
	case types.Uint32:
		return "0", "4294967295", true
	case types.Uint, types.Uint64, types.Uintptr:
		return "0", "18446744073709551615", true
	}
	return "", "", false
}

func (fx *FuncCtx) freshStr(hint string) VStr {
	b := fx.declare(sortArr, hint+"_b")
	o := fx.declare(sortInt, hint+"_o")
	l := fx.declare(sortInt, hint+"_l")
	fx.emit(fmt.Sprintf("(assert (and (<= 0 %s) (<= 0 %s) (< %s %s) (< %s %s)))", o, l, l, maxLen, o, maxLen))
	return VStr{B: b, O: o, L: l}
}

func (fx *FuncCtx) fresh(t types.Type, hint string) Val {
	switch u := t.(type) {
	case *types.Named:
		if isBuffer(t) {
			fx.useSeq = true
			s := fx.declare(sortSeq, hint+"_seq")
			l := fx.declare(sortInt, hint+"_len")
			fx.emit(fmt.Sprintf("(assert (and (<= 0 %s) (< %s %s) (= (bs_len %s) %s)))", l, l, maxLen, s, l))
			return VBuf{s, l}
		}
		if isErrorLike(t) {
			return VErr{fx.declare(sortInt, hint)}
		}
		if st, ok := u.Underlying().(*types.Struct); ok {
			return fx.freshStruct(u.Obj().Name(), st, hint)
		}
		if en, ok := ifaceElemName(t); ok {
			r := fx.declare(sortInt, hint)
			fx.emit(fmt.Sprintf("(assert (<= 0 %s))", r))
			return VRef{r, en}
		}
		return fx.fresh(u.Underlying(), hint)
	case *types.Basic:
		switch {
		case u.Info()&types.IsBoolean != 0:
			return VBool{fx.declare(sortBool, hint)}
		case u.Info()&types.IsInteger != 0:
			n := fx.declare(sortInt, hint)
			if lo, hi, ok := intRange(u); ok {
				fx.emit(fmt.Sprintf("(assert (and (<= %s %s) (<= %s %s)))", lo, n, n, hi))
			}
			return VInt{n}
		case u.Info()&types.IsString != 0:
			return fx.freshStr(hint)
		case u.Info()&types.IsFloat != 0:
			return VOpaque{}
		}
	case *types.Slice:
		if isByteSlice(t) {
			return fx.freshStr(hint)
		}
		if b, ok := u.Elem().Underlying().(*types.Basic); ok && b.Info()&types.IsString != 0 {
			n := fx.declare(sortInt, hint+"_n")
			fx.emit(fmt.Sprintf("(assert (and (<= 0 %s) (< %s %s)))", n, n, maxLen))
			bb := fx.declare(sortArrArr, hint+"_sb")
			oo := fx.declare(sortArr, hint+"_so")
			ll := fx.declare(sortArr, hint+"_sl")
			// element well-formedness is assumed at reads
			return VStrs{B: bb, O: oo, L: ll, N: n}
		}
		if en, ok := refLikeElem(u.Elem()); ok {
			n := fx.declare(sortInt, hint+"_n")
			fx.emit(fmt.Sprintf("(assert (and (<= 0 %s) (< %s %s)))", n, n, maxLen))
			return VRefs{Arr: fx.declare(sortArr, hint+"_refs"), N: n, Elem: en}
		}
		if nm, ok := u.Elem().(*types.Named); ok {
			if st, ok := nm.Underlying().(*types.Struct); ok && st.NumFields() == 1 {
				if b, ok := st.Field(0).Type().Underlying().(*types.Basic); ok && b.Info()&types.IsString != 0 {
					n := fx.declare(sortInt, hint+"_n")
					fx.emit(fmt.Sprintf("(assert (and (<= 0 %s) (< %s %s)))", n, n, maxLen))
					return VStrs{B: fx.declare(sortArrArr, hint+"_sb"), O: fx.declare(sortArr, hint+"_so"), L: fx.declare(sortArr, hint+"_sl"), N: n, Wrap: nm.Obj().Name(), WrapField: st.Field(0).Name()}
				}
			}
		}
		if isEmptyInterface(u.Elem()) {
			n := fx.declare(sortInt, hint+"_n")
			fx.emit(fmt.Sprintf("(assert (and (<= 0 %s) (< %s %s)))", n, n, maxLen))
			return VIfaces{n, fx.declare(sortArr, hint+"_tag"), fx.declare(sortArrArr, hint+"_ib"), fx.declare(sortArr, hint+"_io"), fx.declare(sortArr, hint+"_il")}
		}
	case *types.Array:
		if b, ok := u.Elem().Underlying().(*types.Basic); ok {
			if b.Info()&types.IsBoolean != 0 {
				return VArr{fx.declare(sortArrBool, hint), true}
			}
			if b.Info()&types.IsInteger != 0 {
				return VArr{fx.declare(sortArr, hint), false}
			}
		}
	case *types.Struct:
		return fx.freshStruct("", u, hint)
	case *types.Pointer:
		if isErrorLike(t) {
			r := fx.declare(sortInt, hint)
			fx.emit(fmt.Sprintf("(assert (or (= %s 0) (>= %s 1000)))", r, r))
			return VErr{r}
		}
		if isBufferPtr(t) {
			return fx.fresh(u.Elem(), hint)
		}
		if n, ok := u.Elem().(*types.Named); ok && n.Obj().Pkg() != nil && n.Obj().Pkg().Path() == "regexp" && n.Obj().Name() == "Regexp" {
			// a regexp passed as a parameter: an unknown language
			return VRegex{Var: "param_" + sanitizeIdent(hint), Param: true}
		}
		if n, ok := u.Elem().(*types.Named); ok {
			if _, ok := n.Underlying().(*types.Struct); ok {
				r := fx.declare(sortInt, hint)
				fx.emit(fmt.Sprintf("(assert (<= 0 %s))", r))
				return VRef{r, qualifiedElem(n)}
			}
		}
	case *types.Interface:
		if isErrorLike(t) {
			r := fx.declare(sortInt, hint)
			fx.emit(fmt.Sprintf("(assert (<= 0 %s))", r))
			return VErr{r}
		}
		if en, ok := ifaceElemName(t); ok {
			r := fx.declare(sortInt, hint)
			fx.emit(fmt.Sprintf("(assert (<= 0 %s))", r))
			return VRef{r, en}
		}
		if u.NumMethods() == 0 {
			tag := fx.declare(sortInt, hint+"_tag")
			return VIface{tag, fx.freshStr(hint + "_s")}
		}
	case *types.Map:
		if kb, ok := u.Key().Underlying().(*types.Basic); ok && kb.Info()&types.IsString != 0 {
			if vb, ok := u.Elem().Underlying().(*types.Basic); ok && vb.Info()&types.IsString != 0 {
				return VStrMap{ID: sanitizeIdent(hint)}
			}
		}
		if k, kind, ok := mapKinds(u); ok {
			r := fx.declare(sortInt, hint)
			fx.emit(fmt.Sprintf("(assert (<= 0 %s))", r))
			return VMapRef{T: r, K: k, V: u.Elem(), Kind: kind}
		}
	case *types.Signature:
		return VFuncParam{Nil: fx.declare(sortBool, hint+"_isnil")}
	case *types.Tuple:
		var out VTuple
		for i := 0; i < u.Len(); i++ {
			out = append(out, fx.fresh(u.At(i).Type(), fmt.Sprintf("%s_%d", hint, i)))
		}
		return out
	}
	return VOpaque{}
}

func (fx *FuncCtx) freshStruct(name string, st *types.Struct, hint string) Val {
	v := VStruct{TName: name, F: map[string]Val{}}
	for i := 0; i < st.NumFields(); i++ {
		f := st.Field(i)
		v.Names = append(v.Names, f.Name())
		v.F[f.Name()] = fx.fresh(f.Type(), hint+"_"+f.Name())
	}
	return v
}

// zero value of a Go type
func (fx *FuncCtx) zero(t types.Type) Val {
	switch u := t.(type) {
	case *types.Named:
		if isBuffer(t) {
			fx.useSeq = true
			return VBuf{"bs_empty", "0"}
		}
		if isErrorLike(t) {
			return VErr{"0"}
		}
		if st, ok := u.Underlying().(*types.Struct); ok {
			v := VStruct{TName: u.Obj().Name(), F: map[string]Val{}}
			for i := 0; i < st.NumFields(); i++ {
				f := st.Field(i)
				v.Names = append(v.Names, f.Name())
				v.F[f.Name()] = fx.zero(f.Type())
			}
			return v
		}
		return fx.zero(u.Underlying())
	case *types.Basic:
		switch {
		case u.Info()&types.IsBoolean != 0:
			return VBool{"false"}
		case u.Info()&types.IsInteger != 0:
			return VInt{"0"}
		case u.Info()&types.IsString != 0:
			return fx.strLit("")
		}
	case *types.Slice:
		if isByteSlice(t) {
			return fx.strLit("")
		}
		if b, ok := u.Elem().Underlying().(*types.Basic); ok && b.Info()&types.IsString != 0 {
			return fx.nilStrs()
		}
	case *types.Pointer:
		if isErrorLike(t) {
			return VErr{"0"}
		}
		if n, ok := u.Elem().(*types.Named); ok {
			return VRef{"0", qualifiedElem(n)}
		}
	case *types.Interface:
		if isErrorLike(t) {
			return VErr{"0"}
		}
	case *types.Struct:
		v := VStruct{F: map[string]Val{}}
		for i := 0; i < u.NumFields(); i++ {
			f := u.Field(i)
			v.Names = append(v.Names, f.Name())
			v.F[f.Name()] = fx.zero(f.Type())
		}
		return v
	}
	return VOpaque{}
}

// strLit returns the view of a literal; literal arrays are shared per function.
func (fx *FuncCtx) strLit(s string) VStr {
	if fx.lits == nil {
		fx.lits = map[string]string{}
	}
	nm, ok := fx.lits[s]
	if !ok {
		nm = fx.declare(sortArr, "lit")
		fx.lits[s] = nm
		var cs []string
		for i := 0; i < len(s); i++ {
			cs = append(cs, fmt.Sprintf("(= (select %s %d) %d)", nm, i, s[i]))
		}
		if len(cs) > 0 {
			fx.emit("(assert " + sAnd(cs...) + ")")
		}
	}
	lit := s
	return VStr{B: nm, O: "0", L: fmt.Sprintf("%d", len(s)), Lit: &lit}
}

// seqOf renders a string view as a BSeq term.
func (fx *FuncCtx) seqOf(v VStr) Term {
	fx.useSeq = true
	if v.Lit != nil {
		return seqLit(*v.Lit)
	}
	return fmt.Sprintf("(bs_val %s %s %s)", v.B, v.O, v.L)
}

func seqLit(s string) Term {
	if len(s) == 0 {
		return "bs_empty"
	}
	t := fmt.Sprintf("(bs_unit %d)", s[len(s)-1])
	for i := len(s) - 2; i >= 0; i-- {
		t = fmt.Sprintf("(bs_cat (bs_unit %d) %s)", s[i], t)
	}
	return t
}

func seqCat(parts ...Term) Term {
	var xs []Term
	for _, p := range parts {
		if p != "bs_empty" {
			xs = append(xs, p)
		}
	}
	if len(xs) == 0 {
		return "bs_empty"
	}
	t := xs[len(xs)-1]
	for i := len(xs) - 2; i >= 0; i-- {
		t = "(bs_cat " + xs[i] + " " + t + ")"
	}
	return t
}
