package main

// P2 lemmas: decision, SMT-checked certificates, witnesses, axioms exported to P1.

import (
	"sync"
	"fmt"
	"go/ast"
	"regexp"
	"sort"
	"strings"
	"unicode/utf8"
)

type LemmaResult struct {
	Lemma    *LemmaDef
	Ob       *Obligation
	Witness  string // counterexample string (if refuted)
	HasWit   bool
	StatesA  int
	StatesB  int
	Product  int
	Classes  int
	Patterns []string
	Err      string
}

func (p *Prog) lemmaEnv(exprs []ast.Expr) (*langEnv, error) {
	leafSet := map[string]bool{}
	needLower := false
	seen := map[string]bool{}
	for _, e := range exprs {
		if err := p.collectLeaves(e, leafSet, &needLower, seen); err != nil {
			return nil, err
		}
	}
	var pats []string
	for s := range leafSet {
		pats = append(pats, s)
	}
	sort.Strings(pats)
	le := &langEnv{p: p, leaves: map[string]*leafRegex{}, cache: map[string]*DFA{}, stack: map[string]bool{}}
	var leaves []*leafRegex
	for _, s := range pats {
		l, err := compileLeaf(s)
		if err != nil {
			return nil, fmt.Errorf("pattern %q: %v", s, err)
		}
		le.leaves[s] = l
		leaves = append(leaves, l)
	}
	le.al = buildAlphabet(leaves, nil, needLower)
	return le, nil
}

func (le *langEnv) render(classes []int) string {
	var b strings.Builder
	for _, c := range classes {
		b.WriteRune(le.al.reps[c])
	}
	return b.String()
}

// checkLemma decides one lemma and prepares its certificate obligation.
func (p *Prog) checkLemma(lm *LemmaDef) *LemmaResult {
	res := &LemmaResult{Lemma: lm}
	le, err := p.lemmaEnv(lm.Args)
	if err != nil {
		res.Err = err.Error()
		return res
	}
	for s := range le.leaves {
		res.Patterns = append(res.Patterns, s)
	}
	sort.Strings(res.Patterns)
	res.Classes = len(le.al.reps)
	var ds []*DFA
	for _, a := range lm.Args {
		d, err := le.dfa(a)
		if err != nil {
			res.Err = err.Error()
			return res
		}
		ds = append(ds, d)
	}
	var A, B *DFA
	switch lm.Kind {
	case "subset":
		A, B = ds[0], ds[1]
	case "disjoint":
		A, B = ds[0], complement(ds[1])
	case "equal":
		// (A\B) ∪ (B\A) ⊆ ∅
		A = product(ds[0], ds[1], func(a, b bool) bool { return a != b })
		B = emptyDFA(len(le.al.reps))
	case "member":
		// member("w", L): the string w is in L
		A, B = ds[0], ds[1]
	case "nonempty":
		w, ok := ds[0].shortest()
		ob := &Obligation{Name: "lemma." + lm.Name, Kind: "lemma", Pos: fmt.Sprintf("%s:%d", shortSpec(lm.File), lm.Line), Desc: lm.Text, Expect: VUnsat, Serves: lm.Serves}
		if ok {
			ob.Script = "(assert false)\n(check-sat)\n"
			res.Witness, res.HasWit = le.render(w), true
		} else {
			ob.Script = "(assert true)\n(check-sat)\n"
		}
		res.Ob = ob
		return res
	default:
		res.Err = "unknown lemma kind " + lm.Kind
		return res
	}
	res.StatesA, res.StatesB = A.n(), B.n()
	// reachable product, bad pair search
	k := len(le.al.reps)
	type pair struct{ x, y int32 }
	idx := map[pair]int{}
	var ps []pair
	var parent []int
	var pcls []int
	add := func(pr pair, par, c int) int {
		if i, ok := idx[pr]; ok {
			return i
		}
		idx[pr] = len(ps)
		ps = append(ps, pr)
		parent = append(parent, par)
		pcls = append(pcls, c)
		return len(ps) - 1
	}
	add(pair{int32(A.init), int32(B.init)}, -1, -1)
	bad := -1
	for i := 0; i < len(ps); i++ {
		pr := ps[i]
		if A.acc[pr.x] && !B.acc[pr.y] && bad < 0 {
			bad = i
		}
		for c := 0; c < k; c++ {
			if c == le.al.surr {
				continue
			}
			add(pair{A.delta[pr.x][c], B.delta[pr.y][c]}, i, c)
		}
	}
	res.Product = len(ps)
	if bad >= 0 {
		var cl []int
		for t := bad; parent[t] >= 0; t = parent[t] {
			cl = append([]int{pcls[t]}, cl...)
		}
		res.Witness, res.HasWit = le.render(cl), true
	}
	// certificate script
	var b strings.Builder
	b.WriteString("(set-option :produce-models true)\n")
	writeDelta := func(name string, d *DFA) {
		fmt.Fprintf(&b, "(define-fun %s ((q Int) (c Int)) Int\n", name)
		// group by state, then by class with default = most common target
		closeN := 0
		for q := 0; q < d.n(); q++ {
			cnt := map[int32]int{}
			for _, t := range d.delta[q] {
				cnt[t]++
			}
			var def int32
			best := -1
			for t, n := range cnt {
				if n > best || n == best && t < def {
					def, best = t, n
				}
			}
			row := ""
			closeRow := 0
			for c, t := range d.delta[q] {
				if t != def {
					row += fmt.Sprintf("(ite (= c %d) %d ", c, t)
					closeRow++
				}
			}
			row += fmt.Sprintf("%d", def) + strings.Repeat(")", closeRow)
			if q < d.n()-1 {
				fmt.Fprintf(&b, " (ite (= q %d) %s\n", q, row)
				closeN++
			} else {
				fmt.Fprintf(&b, " %s", row)
			}
		}
		b.WriteString(strings.Repeat(")", closeN))
		b.WriteString(")\n")
		var accs []string
		for q, a := range d.acc {
			if a {
				accs = append(accs, fmt.Sprintf("(= q %d)", q))
			}
		}
		fmt.Fprintf(&b, "(define-fun %s_acc ((q Int)) Bool %s)\n", name, sOr(accs...))
	}
	writeDelta("dA", A)
	writeDelta("dB", B)
	// R as a function of the pair, grouped by x
	byX := map[int32][]int32{}
	for _, pr := range ps {
		byX[pr.x] = append(byX[pr.x], pr.y)
	}
	var xs []int32
	for x := range byX {
		xs = append(xs, x)
	}
	sort.Slice(xs, func(i, j int) bool { return xs[i] < xs[j] })
	var rparts []string
	for _, x := range xs {
		ys := byX[x]
		sort.Slice(ys, func(i, j int) bool { return ys[i] < ys[j] })
		var yt []string
		for _, y := range ys {
			yt = append(yt, fmt.Sprintf("(= y %d)", y))
		}
		rparts = append(rparts, fmt.Sprintf("(and (= x %d) %s)", x, sOr(yt...)))
	}
	fmt.Fprintf(&b, "(define-fun R ((x Int) (y Int)) Bool %s)\n", sOr(rparts...))
	b.WriteString("(declare-const x Int)\n(declare-const y Int)\n(declare-const c Int)\n")
	fmt.Fprintf(&b, "(define-fun initOK () Bool (R %d %d))\n", A.init, B.init)
	fmt.Fprintf(&b, "(define-fun stepOK () Bool (=> (and (R x y) (<= 0 c) (< c %d) (not (= c %d))) (R (dA x c) (dB y c))))\n", k, le.al.surr)
	b.WriteString("(define-fun safeOK () Bool (=> (R x y) (not (and (dA_acc x) (not (dB_acc y))))))\n")
	b.WriteString("(assert (not (and initOK stepOK safeOK)))\n(check-sat)\n(get-model)\n")
	res.Ob = &Obligation{Name: "lemma." + lm.Name, Kind: "lemma", Pos: fmt.Sprintf("%s:%d", shortSpec(lm.File), lm.Line),
		Desc: lm.Kind + ": " + lm.Text, Expect: VUnsat, Script: b.String(), Serves: lm.Serves}
	return res
}

func shortSpec(f string) string { return strings.TrimPrefix(f, "/verif/") }

func emptyDFA(k int) *DFA {
	row := make([]int32, k)
	return &DFA{init: 0, acc: []bool{false}, delta: [][]int32{row}}
}

// lemmaAxiom renders a proved lemma as an axiom over the inlang_ predicates, when both sides are
// named languages (or concatenations of named languages on the left).
func (p *Prog) lemmaAxiom(lm *LemmaDef) (axiom string, langs []string, ok bool) {
	name := func(e ast.Expr) (string, bool) {
		id, ok := e.(*ast.Ident)
		if !ok {
			return "", false
		}
		return id.Name, true
	}
	switch lm.Kind {
	case "member":
		b, okb := name(lm.Args[1])
		if call, okc := lm.Args[0].(*ast.CallExpr); okb && okc && call.Fun.(*ast.Ident).Name == "lit" {
			w, err := litString(call.Args[0])
			if err == nil {
				return fmt.Sprintf("(assert (! (inlang_%s %s) :named lemma_%s))", b, seqLit(w), sanitizeIdent(lm.Name)), []string{b}, true
			}
		}
	case "subset":
		b, okb := name(lm.Args[1])
		if !okb {
			return "", nil, false
		}
		if a, oka := name(lm.Args[0]); oka {
			return fmt.Sprintf("(assert (! (forall ((s BSeq)) (! (=> (inlang_%s s) (inlang_%s s)) :pattern ((inlang_%s s)))) :named lemma_%s))", a, b, a, sanitizeIdent(lm.Name)), []string{a, b}, true
		}
		if call, okc := lm.Args[0].(*ast.CallExpr); okc && call.Fun.(*ast.Ident).Name == "concat" {
			var ns []string
			for _, a := range call.Args {
				n, ok := name(a)
				if !ok {
					return "", nil, false
				}
				ns = append(ns, n)
			}
			var vars, hyps, pats []string
			catT := ""
			for i := len(ns) - 1; i >= 0; i-- {
				v := fmt.Sprintf("s%d", i)
				if catT == "" {
					catT = v
				} else {
					catT = "(bs_cat " + v + " " + catT + ")"
				}
			}
			for i, n := range ns {
				v := fmt.Sprintf("s%d", i)
				vars = append(vars, "("+v+" BSeq)")
				hyps = append(hyps, fmt.Sprintf("(inlang_%s %s)", n, v))
				pats = append(pats, fmt.Sprintf("(inlang_%s %s)", n, v))
			}
			_ = pats
			ax := fmt.Sprintf("(assert (! (forall (%s) (! (=> (and %s) (inlang_%s %s)) :pattern (%s))) :named lemma_%s))",
				strings.Join(vars, " "), strings.Join(hyps, " "), b, catT, catT, sanitizeIdent(lm.Name))
			if len(ns) == 2 {
				// the same fact with the left operand itself a concatenation (associativity)
				ax += fmt.Sprintf("\n(assert (forall ((s0a BSeq) (s0b BSeq) (s1 BSeq)) (! (=> (and (inlang_%s (bs_cat s0a s0b)) (inlang_%s s1)) (inlang_%s (bs_cat s0a (bs_cat s0b s1)))) :pattern ((bs_cat s0a (bs_cat s0b s1))))))", ns[0], ns[1], b)
				// closure under appending a whole run of characters of a one-character class language
				// (follows from the lemma by induction on the run length; engine inference rule)
				if ns[0] == b {
					if test := p.singleCharClassTest(ns[1], "(select rb kk)"); test != "" {
						ax += fmt.Sprintf("\n(assert (forall ((x BSeq) (rb (Array Int Int)) (ro Int) (rl Int)) (! (=> (and (inlang_%s x) (<= 0 rl) (forall ((kk Int)) (=> (and (<= ro kk) (< kk (+ ro rl))) %s))) (inlang_%s (bs_cat x (bs_val rb ro rl)))) :pattern ((bs_cat x (bs_val rb ro rl))))))", b, test, b)
						ax += fmt.Sprintf("\n(assert (forall ((rb (Array Int Int)) (ro Int) (rl Int)) (! (=> (and (inlang_%s bs_empty) (<= 0 rl) (forall ((kk Int)) (=> (and (<= ro kk) (< kk (+ ro rl))) %s))) (inlang_%s (bs_val rb ro rl))) :pattern ((inlang_%s (bs_val rb ro rl))))))", b, test, b, b)
					}
				}
			}
			return ax, append(ns, b), true
		}
	case "disjoint":
		a, oka := name(lm.Args[0])
		b, okb := name(lm.Args[1])
		if oka && okb {
			return fmt.Sprintf("(assert (! (forall ((s BSeq)) (! (not (and (inlang_%s s) (inlang_%s s))) :pattern ((inlang_%s s)) :pattern ((inlang_%s s)))) :named lemma_%s))", a, b, a, b, sanitizeIdent(lm.Name)), []string{a, b}, true
		}
	}
	return "", nil, false
}

// validateLeaf compares the DFA of a pattern with the real regexp package on sample strings
// (assumption validation of the regex -> DFA translation; bounded).
func validateLeaf(pattern string, le *langEnv, d *DFA, maxLen int, limit int) (checked int, mismatch string) {
	re, err := regexp.Compile(pattern)
	if err != nil {
		return 0, "does not compile: " + err.Error()
	}
	k := len(le.al.reps)
	// representatives: all classes, enumerated up to maxLen (bounded by limit strings)
	var rec func(prefix []int, q int, depth int) bool
	rec = func(prefix []int, q int, depth int) bool {
		if checked >= limit {
			return true
		}
		s := le.render(prefix)
		if utf8.ValidString(s) {
			checked++
			if re.MatchString(s) != d.acc[q] {
				mismatch = fmt.Sprintf("%q: regexp=%v dfa=%v", s, re.MatchString(s), d.acc[q])
				return false
			}
		}
		if depth == maxLen {
			return true
		}
		for c := 0; c < k; c++ {
			if le.al.reps[c] >= 0xD800 && le.al.reps[c] <= 0xDFFF {
				continue
			}
			if !rec(append(prefix, c), int(d.delta[q][c]), depth+1) {
				return false
			}
		}
		return true
	}
	rec(nil, d.init, 0)
	return
}

// singleCharClassTest renders the membership test of a language ^[class]$ (ASCII class) on a term.
func (p *Prog) singleCharClassTest(lang string, term string) string {
	ld, ok := p.spec.Langs[lang]
	if !ok || ld.Expr == nil {
		return ""
	}
	call, ok := ld.Expr.(*ast.CallExpr)
	if !ok || call.Fun.(*ast.Ident).Name != "regex" {
		return ""
	}
	pat, err := litString(call.Args[0])
	if err != nil {
		return ""
	}
	ax := charSeqAxiom("X", pat)
	// charSeqAxiom with one class: (= (inlang_X (bs_unit c0)) TEST)
	const pre = "(assert (forall ((c0 Int)) (! (= (inlang_X (bs_unit c0)) "
	if !strings.HasPrefix(ax, pre) {
		return ""
	}
	rest := ax[len(pre):]
	k := strings.Index(rest, ") :pattern")
	if k < 0 {
		return ""
	}
	return strings.ReplaceAll(rest[:k], "c0", term)
}

var langAccMu sync.Mutex
var langAccCache = map[string]*struct {
	le *langEnv
	d  *DFA
}{}

// langAccepts runs a constant string through the automaton of a named language (invalid UTF-8 bytes
// read as U+FFFD, like the regexp package does).
func (p *Prog) langAccepts(name, s string) (bool, error) {
	langAccMu.Lock()
	defer langAccMu.Unlock()
	c, ok := langAccCache[name]
	if !ok {
		id := &ast.Ident{Name: name}
		le, err := p.lemmaEnv([]ast.Expr{id})
		if err != nil {
			return false, err
		}
		d, err := le.dfa(id)
		if err != nil {
			return false, err
		}
		c = &struct {
			le *langEnv
			d  *DFA
		}{le, d}
		langAccCache[name] = c
	}
	q := c.d.init
	for _, r := range s {
		q = int(c.d.delta[q][c.le.al.classOf(r)])
	}
	return c.d.acc[q], nil
}
