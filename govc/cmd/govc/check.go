package main

// Property-level orchestration: which lemmas and functions decide a property, verdicts,
// VIOLATION / KNOWN-FINDING lines, evidence.

import (
	"regexp"
	"encoding/json"
	"fmt"
	"os"
	"path/filepath"
	"sort"
	"strconv"
	"strings"
	"time"
)

type KnownFinding struct {
	ID         string            `json:"id"`
	Property   string            `json:"property"`
	Status     string            `json:"status"` // known | fixed
	Obligation string            `json:"obligation"`
	What       string            `json:"what"`
	Replay     map[string]string `json:"replay,omitempty"`
	Commit     string            `json:"commit,omitempty"`
	AlsoBreaks []string          `json:"also_breaks,omitempty"`
}

type knownFile struct {
	Findings []KnownFinding `json:"findings"`
}

type checkOpts struct {
	id       string
	tier     string
	seed     int
	verifDir string
	repoDir  string
}

func timeoutFor(tier string) int {
	if tier == "thorough" {
		return 120
	}
	return 25
}

func servesProp(serves []string, id string) bool {
	for _, s := range serves {
		if s == id {
			return true
		}
	}
	return false
}

type evidence struct {
	PropertyID  string                 `json:"property_id"`
	Tier        string                 `json:"tier"`
	Seed        int                    `json:"seed"`
	Level       string                 `json:"level"`
	Coverage    map[string]interface{} `json:"coverage"`
	Assumptions []string               `json:"assumptions"`
	WallS       float64                `json:"wall_s"`
	Violations  int                    `json:"violations"`
}

var witFuncs int

func runCheck(o checkOpts) int {
	t0 := time.Now()
	p, err := loadProg(o.repoDir, filepath.Join(o.verifDir, "spec"))
	if err != nil {
		fmt.Println("ENGINE-ERROR: cannot load the repository or the specs:", err)
		return 2
	}
	var kf knownFile
	if data, err := os.ReadFile(filepath.Join(o.verifDir, "known_findings.json")); err == nil {
		if err := json.Unmarshal(data, &kf); err != nil {
			fmt.Println("ENGINE-ERROR: known_findings.json:", err)
			return 2
		}
	}
	timeout := timeoutFor(o.tier)
	crossCheck = o.tier == "thorough"

	var obs []*Obligation
	var findingLemmas []*LemmaResult
	findingProved := map[string]bool{}
	var engineErrs []string
	trusted := map[string]bool{}
	var funcsUnder []string
	lemmaRes := map[string]*LemmaResult{}

	// 1. lemmas
	for _, lm := range p.spec.Lemmas {
		if !servesProp(lm.Serves, o.id) {
			continue
		}
		r := p.checkLemma(lm)
		if r.Err != "" {
			engineErrs = append(engineErrs, "lemma "+lm.Name+": "+r.Err)
			continue
		}
		lemmaRes[lm.Name] = r
		if lm.Finding != "" {
			// the full statement, known to be false on the pinned tree: not a proof obligation
			findingLemmas = append(findingLemmas, r)
			continue
		}
		obs = append(obs, r.Ob)
	}
	// axioms of lemmas are available to every function (they are checked above or by the property they serve)
	p.prepareLemmaAxioms()

	// 2. functions
	var keys []string
	for k, c := range p.spec.Contracts {
		if c.Assumed || !servesProp(c.Serves, o.id) {
			continue
		}
		keys = append(keys, k)
	}
	sort.Strings(keys)
	var reps []*FuncReport
	for _, k := range keys {
		rep := p.verifyFunc(k)
		reps = append(reps, rep)
		if rep.Err != "" {
			engineErrs = append(engineErrs, k+": "+rep.Err)
		}
		funcsUnder = append(funcsUnder, shortFuncName(k))
		for _, t := range rep.Trusted {
			trusted[t] = true
		}
		obs = append(obs, rep.Obs...)
	}
	// 3. extra generators (tables, bounded stand-ins) registered per property
	extra, extraNotes, extraErrs := p.extraObligations(o)
	obs = append(obs, extra...)
	engineErrs = append(engineErrs, extraErrs...)

	solveAll(obs, timeout, o.seed, 14)
	// obligations whose PROOF demonstrates a known finding are not proof obligations of the property
	{
		var keep []*Obligation
		for _, ob := range obs {
			if ob.FindingID == "" {
				keep = append(keep, ob)
				continue
			}
			if ob.Result != nil && ob.Result.Verdict == VUnsat {
				findingProved[ob.FindingID] = true
			} else {
				fmt.Printf("NOTE: %s is no longer provable; known finding %s may be gone from the code\n", ob.Name, ob.FindingID)
			}
		}
		obs = keep
	}

	// 4. verdicts
	type fail struct {
		ob     *Obligation
		reason string
	}
	var fails []fail
	discharged := 0
	solverTally := map[string]int{}
	solverSecs := 0.0
	kinds := map[string]int{}
	nBounded, okBounded := 0, 0
	var boundedDescs []string
	for _, ob := range obs {
		kinds[ob.Kind]++
		if ob.Kind == "bounded" {
			nBounded++
			boundedDescs = append(boundedDescs, ob.Desc)
			if ob.Result != nil && ob.Result.Verdict == ob.Expect {
				okBounded++
				continue
			}
		}
		if ob.Result == nil {
			fails = append(fails, fail{ob, "not solved"})
			continue
		}
		solverSecs += ob.Result.Seconds
		if ob.Result.Verdict == ob.Expect {
			discharged++
			solverTally[ob.Result.Solver]++
			continue
		}
		fails = append(fails, fail{ob, ob.Result.Verdict.String()})
		if os.Getenv("GOVC_DEBUG") != "" && ob.fx != nil {
			os.WriteFile("/tmp/govc_check_fail_"+sanitizeIdent(ob.Name)+".smt2", []byte(ob.fx.scriptFor(ob)), 0o644)
		}
	}

	// 5. baseline: the obligations expected for this property must all exist
	var missing []string
	if base := loadBaseline(o.verifDir, o.id); base != nil {
		have := map[string]bool{}
		for _, ob := range obs {
			have[obligationStem(ob.Name)] = true
		}
		for _, n := range base {
			if !have[n] {
				missing = append(missing, n)
			}
		}
	}

	exit := 0
	violations := 0
	replayDir := filepath.Join(o.verifDir, "replay", "out")
	if d := os.Getenv("GOVC_EVIDENCE_DIR"); d != "" {
		replayDir = filepath.Join(d, "replay")
	}
	os.MkdirAll(replayDir, 0o755)

	// lemmas that state a property in full although a known finding refutes it
	stillRefuted := map[string]bool{}
	for _, fr := range findingLemmas {
		if fr.HasWit {
			stillRefuted[fr.Lemma.Finding] = true
		} else {
			fmt.Printf("NOTE: lemma %s now holds in full; known finding %s is no longer present in the code\n", fr.Lemma.Name, fr.Lemma.Finding)
		}
	}
	// known findings: replay the witness on the real code
	var knownLines []string
	for _, f := range kf.Findings {
		if f.Property != o.id && !servesProp(f.AlsoBreaks, o.id) {
			continue
		}
		if f.Status != "known" {
			continue
		}
		still, detail := p.replayKnown(o, f)
		if still {
			line := fmt.Sprintf("KNOWN-FINDING: property=%s %s [%s] %s", o.id, f.ID, f.Obligation, f.What)
			fmt.Println(line)
			knownLines = append(knownLines, line+" :: "+detail)
		} else {
			fmt.Printf("NOTE: known finding %s no longer reproduces (%s)\n", f.ID, detail)
		}
	}

	for _, fl := range fails {
		ob := fl.ob
		violations++
		exit = 1
		rf := filepath.Join(replayDir, fmt.Sprintf("%s-%s.json", o.id, sanitizeIdent(ob.Name)))
		rep := map[string]interface{}{
			"property": o.id, "obligation": ob.Name, "kind": ob.Kind, "position": ob.Pos, "description": ob.Desc,
			"verdict": fl.reason,
		}
		suffix := " no-failing-input-found"
		if ob.Result != nil {
			rep["solver_output"] = truncate(ob.Result.Output, 6000)
			rep["solvers"] = ob.Result.All
		}
		if lr := lemmaRes[strings.TrimPrefix(ob.Name, "lemma.")]; lr != nil && lr.HasWit {
			rep["counterexample_string"] = lr.Witness
			rep["counterexample_quoted"] = strconv.Quote(lr.Witness)
			ok, detail := p.replayLemmaWitness(o, lr)
			rep["replay_on_real_code"] = detail
			if lr.Lemma.ReplayKind != "" {
				rep["replay_recipe"] = map[string]interface{}{"pkg": lr.Lemma.ReplayPkg, "kind": lr.Lemma.ReplayKind, "arg": lr.Lemma.ReplayArg, "inputs": append([]string{lr.Witness}, lr.Lemma.Also...)}
			}
			if ok {
				suffix = ""
			}
		} else if ob.HarnessJob != nil && ob.Result != nil && ob.Result.Verdict == VSat {
			// a bounded stand-in that ran on the real code and found an input on which it fails
			rep["replay_on_real_code"] = ob.Result.Output
			rep["harness_recipe"] = map[string]interface{}{"pkg": ob.HarnessPkg, "kind": ob.HarnessJob.Kind, "args": ob.HarnessJob.Args}
			if ob.HarnessJob.Args["lang"] == "" {
				suffix = ""
			}
		}
		if suffix != "" {
			// a witness recorded with an earlier (repaired or known) finding about this obligation:
			// if it fails again on the current code it is the failing input
			for _, f := range kf.Findings {
				if f.Replay == nil || !(ob.Name == f.Obligation || strings.HasPrefix(ob.Name, f.Obligation+"@") || strings.HasPrefix(ob.Name, f.Obligation+"/")) {
					continue
				}
				if f.Status != "fixed" {
					// the witness of a finding that is still present fails with or without the change
					// under test: it says nothing about this failure
					continue
				}
				still, detail := p.replayKnown(o, f)
				rep["recorded_finding"] = f.ID
				rep["replay_on_real_code"] = detail
				if still && !strings.HasPrefix(detail, "replay failed to run") && !strings.HasPrefix(detail, "replay returned no") {
					rep["known_replay"] = f.Replay
					suffix = ""
					break
				}
			}
		}
		if suffix != "" && ob.fx != nil && !ob.Canary && ob.HarnessJob == nil && lemmaRes[strings.TrimPrefix(ob.Name, "lemma.")] == nil {
			// look for an input of the real function on which a contract clause is false (witness.go)
			if _, seen := witCache[ob.fx.key]; seen || witFuncs < 2 {
				if !seen {
					witFuncs++
				}
				w, note := p.witnessSearch(o, ob)
				if w != nil {
					rep["replay_on_real_code"] = fmt.Sprintf("REPRODUCED on the real code: %s = %s violates clause(s) %s of the contract of %s (candidate from: %s)", w.Call, w.Result, strings.Join(w.Clauses, ", "), ob.fx.short, w.Source)
					rep["witness_recipe"] = w
					suffix = ""
				} else {
					rep["witness_search"] = note
				}
			} else {
				rep["witness_search"] = "skipped: two functions were already searched in this run"
			}
			if _, ok := rep["replay_on_real_code"]; !ok {
				rep["replay_on_real_code"] = rep["witness_search"]
			}
		}
		if suffix != "" && ob.fx == nil && !ob.Canary && ob.HarnessJob == nil {
			// a table lemma or SMT lemma: boundary inputs may be listed under the obligation's name
			if recipe, detail, ok := p.tryWitnessListsFor(o, ob.Name); ok {
				rep["replay_on_real_code"] = detail
				rep["replay_recipe"] = recipe
				suffix = ""
			}
		}
		if suffix != "" && ob.fx != nil && !ob.Canary {
			// boundary inputs listed for this function in the spec files (witnesslist)
			if recipe, detail, ok := p.tryWitnessLists(o, ob); ok {
				rep["replay_on_real_code"] = detail
				rep["replay_recipe"] = recipe
				suffix = ""
			}
		}
		data, _ := json.MarshalIndent(rep, "", " ")
		os.WriteFile(rf, data, 0o644)
		fmt.Printf("VIOLATION property=%s replay=%s%s\n", o.id, rf, suffix)
		fmt.Printf("  failed obligation %s (%s) at %s: %s\n", ob.Name, fl.reason, ob.Pos, ob.Desc)
	}
	// obligations of the baseline that are no longer generated: one report per function / lemma
	if len(missing) > 0 {
		byOwner := map[string][]string{}
		for _, m := range missing {
			owner := m
			if k := strings.Index(m, "#"); k >= 0 {
				owner = m[:k]
			}
			byOwner[owner] = append(byOwner[owner], m)
		}
		var owners []string
		for k := range byOwner {
			owners = append(owners, k)
		}
		sort.Strings(owners)
		for _, ow := range owners {
			violations++
			exit = 1
			rf := filepath.Join(replayDir, fmt.Sprintf("%s-missing-%s.json", o.id, sanitizeIdent(ow)))
			why := "the code these obligations are about changed shape, left the verified subset or disappeared; the obligations that passed on the unchanged tree are no longer discharged"
			for _, e := range engineErrs {
				if strings.Contains(e, strings.TrimPrefix(ow, "template.")) || strings.Contains(e, ow) {
					why += " (" + e + ")"
				}
			}
			mrep := map[string]interface{}{"property": o.id, "obligation": ow + " (obligations no longer generated)", "owner": ow, "missing_obligations": byOwner[ow], "verdict": why}
			msuffix := " no-failing-input-found"
			// boundary inputs listed for this function (witnesslist) may still show what the change did
			if recipe, detail, ok := p.tryWitnessListsFor(o, ow); ok {
				mrep["replay_on_real_code"] = detail
				mrep["replay_recipe"] = recipe
				msuffix = ""
			}
			data, _ := json.MarshalIndent(mrep, "", " ")
			os.WriteFile(rf, data, 0o644)
			fmt.Printf("VIOLATION property=%s replay=%s%s\n", o.id, rf, msuffix)
			fmt.Printf("  %d expected obligations of %s are no longer generated (first: %s)\n", len(byOwner[ow]), ow, byOwner[ow][0])
		}
	}
	for _, se := range scriptErrors {
		engineErrs = append(engineErrs, "malformed SMT script: "+se)
	}
	if len(engineErrs) > 0 {
		for _, e := range engineErrs {
			fmt.Println("ENGINE-ERROR:", e)
		}
		if exit == 0 {
			exit = 2
		}
	}
	if len(obs) == 0 {
		fmt.Println("ENGINE-ERROR: no obligations were generated for", o.id)
		exit = 2
	}

	// 6. evidence
	var samples []interface{}
	for i, ob := range obs {
		if i%(len(obs)/8+1) == 0 {
			s := map[string]interface{}{"obligation": ob.Name, "kind": ob.Kind, "at": ob.Pos, "statement": truncate(ob.Desc, 200)}
			if ob.Result != nil {
				s["verdict"] = ob.Result.Verdict.String()
				s["solver"] = ob.Result.Solver
			}
			samples = append(samples, s)
		}
	}
	var tb []string
	for t := range trusted {
		tb = append(tb, t)
	}
	tb = append(tb, "govc itself: Go-subset semantics, VC generation, regex->DFA translation (validated differentially against package regexp on every run), SMT solvers z3 4.8.12 / z3 5.1.0 / cvc5 1.0.3")
	tb = append(tb, "bridging between byte strings and regular languages (engine rules, assumption U1: a byte below 0x80 is the code point itself, a byte from 0x80 up belongs to a non-ASCII code point or decodes to U+FFFD): class-sequence, class-run, first/last-byte and literal-quotient facts are generated from the pattern that defines a language")
	tb = append(tb, "integers are mathematical; every int operation carries an explicit no-overflow obligation under len(x) < 2^56 for every string/slice")
	sort.Strings(tb)
	var lemNames []string
	for n, lr := range lemmaRes {
		lemNames = append(lemNames, fmt.Sprintf("%s (product %d states, %d classes)", n, lr.Product, lr.Classes))
	}
	sort.Strings(lemNames)
	cov := map[string]interface{}{
		"obligations":              len(obs) - nBounded,
		"discharged":               discharged,
		"bounded_standins":         boundedDescs,
		"bounded_standins_passed":  okBounded,
		"checker_cmd":              fmt.Sprintf("/verif/bin/govc check %s %s", o.id, o.tier),
		"trusted_base":             tb,
		"functions_under_contract": funcsUnder,
		"lemmas":                   lemNames,
		"obligation_kinds":         kinds,
		"discharged_by_backend":    solverTally,
		"solver_seconds":           solverSecs,
		"samples":                  samples,
		"known_findings":           knownLines,
		"notes":                    extraNotes,
		"engine_errors":            engineErrs,
		"per_obligation_timeout_s": timeout,
		"cross_checked":            map[string]interface{}{"enabled": crossCheck, "answers_confirmed_by_a_second_solver": crossConfirmed, "answers_by_one_solver_only": crossAlone},
	}
	ev := evidence{PropertyID: o.id, Tier: o.tier, Seed: o.seed, Level: "proof", Coverage: cov, Assumptions: tb, WallS: time.Since(t0).Seconds(), Violations: violations}
	evDir := filepath.Join(o.verifDir, "evidence")
	if d := os.Getenv("GOVC_EVIDENCE_DIR"); d != "" {
		evDir = d // experiments on modified trees must not overwrite the committed evidence
	}
	os.MkdirAll(evDir, 0o755)
	data, _ := json.MarshalIndent(ev, "", " ")
	os.WriteFile(filepath.Join(evDir, o.id+".json"), data, 0o644)
	fmt.Printf("%s %s: %d proof obligations, %d discharged; %d bounded stand-ins, %d passed; %d violations, %d engine errors, %.1fs\n", o.id, o.tier, len(obs)-nBounded, discharged, nBounded, okBounded, violations, len(engineErrs), time.Since(t0).Seconds())
	return exit
}

func loadBaseline(verifDir, id string) []string {
	data, err := os.ReadFile(filepath.Join(verifDir, "baseline", "obligations.json"))
	if err != nil {
		return nil
	}
	var m map[string][]string
	if json.Unmarshal(data, &m) != nil {
		return nil
	}
	return m[id]
}

// prepareLemmaAxioms renders every lemma and every definitional fact about languages as axioms.
func (p *Prog) prepareLemmaAxioms() {
	p.lemmaAxioms = map[string]lemmaAx{}
	for _, lm := range p.spec.Lemmas {
		ax, langs, ok := p.lemmaAxiom(lm)
		if ok {
			p.lemmaAxioms[lm.Name] = lemmaAx{ax, langs}
		}
	}
}

type lemmaAx struct {
	text  string
	langs []string
}

var unstableKinds = map[string]bool{"index": true, "slice": true, "overflow": true, "nil": true, "convrange": true, "divzero": true, "divsign": true,
	"fmtrange": true, "typeassert": true, "lock": true, "nilfunc": true, "panic": true, "bounded": true, "cover": true}

// stableName: obligations whose names do not depend on counting expression sites.
func stableName(ob *Obligation) bool { return !unstableKinds[ob.Kind] }

var ordinalRe = regexp.MustCompile(`(@ret|/path|@edge|@call)\d+`)
var trailingNumRe = regexp.MustCompile(`\d+$`)

// obligationStem removes the ordinals that depend on the shape of the code (which return, which merged
// path, which back edge, which call site, the running number of unlabelled safety obligations): the
// baseline must not raise an alarm when a harmless edit renumbers them.
func obligationStem(name string) string {
	if strings.HasPrefix(name, "lemma.") || strings.HasPrefix(name, "bounded.") || strings.HasPrefix(name, "tablelemma.") || strings.HasPrefix(name, "smtlemma.") {
		return name
	}
	return trailingNumRe.ReplaceAllString(ordinalRe.ReplaceAllString(name, ""), "")
}

func writeBaseline() int {
	p, err := loadProg("/repo", "/verif/spec")
	if err != nil {
		fmt.Println("ENGINE-ERROR:", err)
		return 2
	}
	p.prepareLemmaAxioms()
	out := map[string][]string{}
	ids := map[string]bool{}
	for _, c := range p.spec.Contracts {
		for _, s := range c.Serves {
			ids[s] = true
		}
	}
	for _, lm := range p.spec.Lemmas {
		for _, s := range lm.Serves {
			ids[s] = true
		}
	}
	reports := map[string]*FuncReport{}
	for id := range ids {
		var names []string
		for _, lm := range p.spec.Lemmas {
			if servesProp(lm.Serves, id) && lm.Finding == "" {
				names = append(names, "lemma."+lm.Name)
			}
		}
		for k, c := range p.spec.Contracts {
			if c.Assumed || !servesProp(c.Serves, id) {
				continue
			}
			rep, ok := reports[k]
			if !ok {
				rep = p.verifyFunc(k)
				reports[k] = rep
			}
			if rep.Err != "" {
				fmt.Println("ENGINE-ERROR:", k, rep.Err)
				return 2
			}
			for _, ob := range rep.Obs {
				if stableName(ob) && ob.FindingID == "" {
					names = append(names, obligationStem(ob.Name))
				}
			}
		}
		extra, _, _ := p.extraObligations(checkOpts{id: id, tier: "quick", verifDir: "/verif", repoDir: "/repo"})
		for _, ob := range extra {
			if ob.Kind == "lemma" {
				names = append(names, ob.Name)
			}
		}
		sort.Strings(names)
		var uniq []string
		for i, n := range names {
			if i == 0 || n != names[i-1] {
				uniq = append(uniq, n)
			}
		}
		out[id] = uniq
	}
	os.MkdirAll("/verif/baseline", 0o755)
	data, _ := json.MarshalIndent(out, "", " ")
	if err := os.WriteFile("/verif/baseline/obligations.json", data, 0o644); err != nil {
		fmt.Println(err)
		return 2
	}
	n := 0
	for _, v := range out {
		n += len(v)
	}
	fmt.Printf("baseline: %d properties, %d stable obligation names\n", len(out), n)
	return 0
}
