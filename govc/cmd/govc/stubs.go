package main

import (
	"fmt"
	"go/ast"
	"go/types"
)

func (x *Exec) indexAssign(l *ast.IndexExpr, v Val, st *State) {
	e := x.ev(st)
	base := e.ev(l.X)
	switch b := base.(type) {
	case VStrs:
		sv, ok := v.(VStr)
		if !ok {
			unsupp(l.Pos(), x.fx.prog.fset, "assignment of %T into a []string", v)
		}
		i := e.intOf(e.ev(l.Index), l.Index)
		e.safety("index", "index", l.Pos(), sAnd(sLe("0", i), sLt(i, b.N)), "index in range of "+exprString(l.X))
		nb := VStrs{
			B: x.fx.name(sortArrArr, "sb", fmt.Sprintf("(store %s %s %s)", b.B, i, sv.B)),
			O: x.fx.name(sortArr, "so", fmt.Sprintf("(store %s %s %s)", b.O, i, sv.O)),
			L: x.fx.name(sortArr, "sl", fmt.Sprintf("(store %s %s %s)", b.L, i, sv.L)),
			N: b.N,
		}
		x.assignTo(l.X, nb, st, false)
		return
	case VRefs:
		// slices of references are values in this model (no aliasing of backing arrays): the store
		// yields a new slice value that is written back to where the slice came from
		var rt Term
		switch rv := v.(type) {
		case VRef:
			rt = rv.T
		case VNil:
			rt = "0"
		default:
			unsupp(l.Pos(), x.fx.prog.fset, "assignment of %T into a slice of references", v)
		}
		i := e.intOf(e.ev(l.Index), l.Index)
		e.safety("index", "index", l.Pos(), sAnd(sLe("0", i), sLt(i, b.N)), "index in range of "+exprString(l.X))
		x.fx.trusted["slices of strings and of references are values in the model: a store s[i] = v or copy(dst, src) is seen only through the variable or field it is written back to, never through another slice sharing the backing array, and not by the caller (assumed: no observed aliasing)"] = true
		nb := VRefs{Arr: x.fx.name(sortArr, "ra", fmt.Sprintf("(store %s %s %s)", b.Arr, i, rt)), N: b.N, Elem: b.Elem}
		x.assignTo(l.X, nb, st, false)
		return
	case VHeapMap:
		x.heapMapStore(l, b, v, st)
		return
	case VMapRef:
		x.mapRefStore(l, b, v, st)
		return
	}
	unsupp(l.Pos(), x.fx.prog.fset, "indexed assignment into %T is outside the modelled subset", base)
}

// rangeString models "for _, r := range s": iteration over the code points utf8dec(s) (invalid
// bytes decode to U+FFFD); the byte index is not modelled.
func (x *Exec) rangeString(s *ast.RangeStmt, st *State, c VStr, lc *LoopContract, ord int) *Flow {
	fx := x.fx
	if id, ok := s.Key.(*ast.Ident); ok && id.Name != "_" {
		unsupp(s.Pos(), fx.prog.fset, "the byte index of a range over a string is not modelled")
	}
	fx.useSeq = true
	fx.specUsed["utf8dec"] = true
	fx.specUsed["bs_nth"] = true
	fx.trusted["range over a string yields the code points utf8dec(s), each in [0,0x10FFFF] and not a surrogate (assumed UTF-8 facts U1-U3)"] = true
	dec := fx.name(sortSeq, "dec", "(utf8dec "+fx.seqOf(c)+")")
	n := fx.name(sortInt, "nr", "(bs_len "+dec+")")
	idxObj := types.NewVar(s.Pos(), fx.pkg.Types, fmt.Sprintf("rangeidx%d", ord), types.Typ[types.Int])
	st.env[idxObj] = VInt{"0"}
	fx.ghostLocals[fmt.Sprintf("rangeidx%d", ord)] = idxObj
	fx.ghostLocals["rangeidx"] = idxObj
	ls := &loopSpec{node: s, ord: ord, lc: lc, bodyPos: s.Body.Lbrace + 1, body: s.Body.List, modNodes: []ast.Node{s.Body}, modExtra: []types.Object{idxObj}}
	ls.autoInv = func(h *State) Term {
		k := h.env[idxObj].(VInt).T
		return sAnd(sLe("0", k), sLe(k, n))
	}
	ls.autoDec = func(h *State) Term { return sSub(n, h.env[idxObj].(VInt).T) }
	ls.guard = func(h *State) Term { return sLt(h.env[idxObj].(VInt).T, n) }
	ls.pre = func(b *State) {
		if id, ok := s.Value.(*ast.Ident); ok && id.Name != "_" {
			obj := x.info.Defs[id]
			if obj == nil {
				obj = x.info.Uses[id]
			}
			r := fx.name(sortInt, "rune", "(bs_nth "+dec+" "+b.env[idxObj].(VInt).T+")")
			fx.emit(fmt.Sprintf("(assert (and (<= 0 %s) (<= %s 1114111) (not (and (<= 55296 %s) (<= %s 57343)))))", r, r, r, r))
			b.env[obj] = VInt{r}
		}
	}
	ls.post = func(b *State) *Flow {
		b.env[idxObj] = VInt{fx.name(sortInt, "k", sAdd(b.env[idxObj].(VInt).T, "1"))}
		return &Flow{fall: b}
	}
	f := x.loop(ls, st)
	if f.fall != nil {
		delete(f.fall.env, idxObj)
	}
	return f
}
func (x *Exec) rangeOther(s *ast.RangeStmt, st *State, coll Val, lc *LoopContract, ord int) *Flow {
	if m, ok := coll.(VStrMap); ok {
		return x.rangeStrMap(s, st, m, lc, ord)
	}
	if m, ok := coll.(VMapRef); ok {
		return x.rangeHeapMap(s, st, m, lc, ord)
	}
	unsupp(s.Pos(), x.fx.prog.fset, fmt.Sprintf("range over %T is not modelled", coll))
	return nil
}

// rangeHeapMap: "for k, v := range m" over a map object of the heap: an unknown number of
// iterations, each with some key present in the map when the iteration starts and its value, in
// no particular order; that every entry is visited is not modelled. Termination is assumed.
func (x *Exec) rangeHeapMap(s *ast.RangeStmt, st *State, m VMapRef, lc *LoopContract, ord int) *Flow {
	fx := x.fx
	fx.trusted["range over a map visits entries of the map (each key present, value = m[key]) in an unspecified order and terminates (assumed)"] = true
	ls := &loopSpec{node: s, ord: ord, lc: lc, bodyPos: s.Body.Lbrace + 1, body: s.Body.List, modNodes: []ast.Node{s.Body}}
	ls.autoDec = func(h *State) Term { return "1" }
	ls.guard = func(h *State) Term { return fx.declare(sortBool, "more") }
	mt, _ := x.info.TypeOf(s.X).Underlying().(*types.Map)
	ls.pre = func(b *State) {
		if mt == nil {
			unsupp(s.Pos(), fx.prog.fset, "range over a map of unknown type")
		}
		k := fx.fresh(mt.Key(), "key")
		for _, rt := range refTermsOf(k) {
			fx.assume(b.pc, sLe(rt, fx.allocTerm(b)))
		}
		e := x.ev(b)
		v, has := e.heapMapGet(m, k, s)
		fx.assume(b.pc, has)
		if _, opaque := v.(VOpaque); opaque {
			v = fx.fresh(mt.Elem(), "val")
		}
		if id, ok := s.Key.(*ast.Ident); ok && id.Name != "_" {
			obj := x.info.Defs[id]
			if obj == nil {
				obj = x.info.Uses[id]
			}
			b.env[obj] = k
		}
		if id, ok := s.Value.(*ast.Ident); ok && id.Name != "_" {
			obj := x.info.Defs[id]
			if obj == nil {
				obj = x.info.Uses[id]
			}
			b.env[obj] = v
		}
	}
	return x.loop(ls, st)
}

// rangeStrMap: "for k, v := range m" over a map[string]string parameter: an unknown number of
// iterations, each with some key of the map and its value, in no particular order. Termination of a
// range over a finite map is assumed.
func (x *Exec) rangeStrMap(s *ast.RangeStmt, st *State, m VStrMap, lc *LoopContract, ord int) *Flow {
	fx := x.fx
	fx.trusted["range over a map visits entries of the map (each key present, value = m[key]) in an unspecified order and terminates (assumed)"] = true
	ls := &loopSpec{node: s, ord: ord, lc: lc, bodyPos: s.Body.Lbrace + 1, body: s.Body.List, modNodes: []ast.Node{s.Body}}
	ls.autoDec = func(h *State) Term { return "1" }
	ls.guard = func(h *State) Term { return fx.declare(sortBool, "more") }
	ls.pre = func(b *State) {
		k := fx.freshStr("key")
		e := x.ev(b)
		tv := e.strMapLookup(m, k, true, s).(VTuple)
		fx.assume(b.pc, tv[1].(VBool).T)
		if id, ok := s.Key.(*ast.Ident); ok && id.Name != "_" {
			obj := x.info.Defs[id]
			if obj == nil {
				obj = x.info.Uses[id]
			}
			b.env[obj] = k
		}
		if id, ok := s.Value.(*ast.Ident); ok && id.Name != "_" {
			obj := x.info.Defs[id]
			if obj == nil {
				obj = x.info.Uses[id]
			}
			b.env[obj] = tv[0]
		}
	}
	return x.loop(ls, st)
}

// copyRefs models the statement copy(dst, src) on slices of references (values in this model): the
// first min(len(dst), len(src)) elements of dst become those of src, the others stay.
func (x *Exec) copyRefs(call *ast.CallExpr, st *State) {
	e := x.ev(st)
	d, ok1 := e.ev(call.Args[0]).(VRefs)
	sv, ok2 := e.ev(call.Args[1]).(VRefs)
	if !ok1 || !ok2 {
		unsupp(call.Pos(), x.fx.prog.fset, "copy is modelled for slices of references only")
	}
	fx := x.fx
	x.fx.trusted["slices of strings and of references are values in the model: a store s[i] = v or copy(dst, src) is seen only through the variable or field it is written back to, never through another slice sharing the backing array, and not by the caller (assumed: no observed aliasing)"] = true
	m := fx.name(sortInt, "cpn", fmt.Sprintf("(ite (<= %s %s) %s %s)", d.N, sv.N, d.N, sv.N))
	arr := fx.declare(sortArr, "cp_refs")
	fx.emit(fmt.Sprintf("(assert (forall ((k Int)) (! (= (select %s k) (ite (and (<= 0 k) (< k %s)) (select %s k) (select %s k))) :pattern ((select %s k)))))", arr, m, sv.Arr, d.Arr, arr))
	x.assignTo(call.Args[0], VRefs{Arr: arr, N: d.N, Elem: d.Elem}, st, false)
}
