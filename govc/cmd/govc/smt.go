package main

// SMT back end: script assembly, solver racing, verdict parsing.

import (
	"bytes"
	"context"
	"fmt"
	"os"
	"os/exec"
	"path/filepath"
	"regexp"
	"strings"
	"sync"
	"time"
)

type Term = string

func sAnd(ts ...Term) Term {
	var xs []Term
	for _, t := range ts {
		if t == "true" || t == "" {
			continue
		}
		if t == "false" {
			return "false"
		}
		xs = append(xs, t)
	}
	switch len(xs) {
	case 0:
		return "true"
	case 1:
		return xs[0]
	}
	return "(and " + strings.Join(xs, " ") + ")"
}

func sOr(ts ...Term) Term {
	var xs []Term
	for _, t := range ts {
		if t == "false" || t == "" {
			continue
		}
		if t == "true" {
			return "true"
		}
		xs = append(xs, t)
	}
	switch len(xs) {
	case 0:
		return "false"
	case 1:
		return xs[0]
	}
	return "(or " + strings.Join(xs, " ") + ")"
}

func sNot(t Term) Term {
	if t == "true" {
		return "false"
	}
	if t == "false" {
		return "true"
	}
	if strings.HasPrefix(t, "(not ") && balancedFrom(t, 5) {
		return t[5 : len(t)-1]
	}
	return "(not " + t + ")"
}

// balancedFrom reports whether t[i:len(t)-1] is one balanced term.
func balancedFrom(t string, i int) bool {
	d := 0
	for k := i; k < len(t)-1; k++ {
		switch t[k] {
		case '(':
			d++
		case ')':
			d--
			if d < 0 {
				return false
			}
		case ' ':
			if d == 0 {
				return false
			}
		}
	}
	return d == 0
}

func sImp(a, b Term) Term {
	if a == "true" {
		return b
	}
	if a == "false" || b == "true" {
		return "true"
	}
	return "(=> " + a + " " + b + ")"
}
func sEq(a, b Term) Term {
	if a == b {
		return "true"
	}
	return "(= " + a + " " + b + ")"
}
func sIte(c, a, b Term) Term {
	if c == "true" {
		return a
	}
	if c == "false" {
		return b
	}
	if a == b {
		return a
	}
	return "(ite " + c + " " + a + " " + b + ")"
}
func sInt(n int64) Term {
	if n < 0 {
		return fmt.Sprintf("(- %d)", -n)
	}
	return fmt.Sprintf("%d", n)
}
func sAdd(a, b Term) Term {
	if b == "0" {
		return a
	}
	if a == "0" {
		return b
	}
	return "(+ " + a + " " + b + ")"
}
func sSub(a, b Term) Term {
	if b == "0" {
		return a
	}
	return "(- " + a + " " + b + ")"
}
func sLe(a, b Term) Term  { return "(<= " + a + " " + b + ")" }
func sLt(a, b Term) Term  { return "(< " + a + " " + b + ")" }
func sSel(a, i Term) Term { return "(select " + a + " " + i + ")" }

// ---------------------------------------------------------------------------

type Verdict int

const (
	VUnknown Verdict = iota
	VUnsat
	VSat
)

func (v Verdict) String() string {
	switch v {
	case VUnsat:
		return "unsat"
	case VSat:
		return "sat"
	}
	return "unknown"
}

type SolveResult struct {
	Verdict Verdict
	Solver  string
	Seconds float64
	Output  string // raw output of the deciding solver (model when sat)
	All     map[string]string
}

type solverSpec struct {
	name string
	argv func(file string, timeoutS int, seed int) []string
	pre  string // text to put before the script
}

var solvers = []solverSpec{
	{"z3-4.8.12", func(f string, t, seed int) []string {
		return []string{"/usr/bin/z3", fmt.Sprintf("-T:%d", t), fmt.Sprintf("smt.random_seed=%d", seed), f}
	}, ""},
	{"z3-5.1.0", func(f string, t, seed int) []string {
		return []string{"z3-new", fmt.Sprintf("-T:%d", t), fmt.Sprintf("smt.random_seed=%d", seed), f}
	}, ""},
	{"cvc5-1.0.3", func(f string, t, seed int) []string {
		return []string{"/usr/bin/cvc5", fmt.Sprintf("--tlimit=%d", t*1000), fmt.Sprintf("--seed=%d", seed), "--produce-models", f}
	}, ""},
}

var scratchDir string
var scratchOnce sync.Once
var scratchSeq int
var scratchMu sync.Mutex

func scratch() string {
	scratchOnce.Do(func() {
		d, err := os.MkdirTemp("", "govc-")
		if err != nil {
			panic(err)
		}
		scratchDir = d
	})
	return scratchDir
}

func cleanupScratch() {
	if scratchDir != "" {
		os.RemoveAll(scratchDir)
	}
}

func scratchFile(prefix, ext string) string {
	scratchMu.Lock()
	scratchSeq++
	n := scratchSeq
	scratchMu.Unlock()
	return filepath.Join(scratch(), fmt.Sprintf("%s%d%s", prefix, n, ext))
}

var scriptErrMu sync.Mutex
var scriptErrors []string

func noteScriptError(msg string) {
	scriptErrMu.Lock()
	defer scriptErrMu.Unlock()
	if len(scriptErrors) < 20 {
		scriptErrors = append(scriptErrors, msg)
	}
}

var lambdaRe = regexp.MustCompile(`\(lambda `)

// crossCheck (thorough tier): after the first decisive answer the other solvers get a grace period to
// answer too; a second decisive answer must agree. Disagreement is an engine error, agreement is
// counted in the evidence.
var crossCheck bool
var crossMu sync.Mutex
var crossConfirmed, crossAlone int

// solve races the solvers on script. which: indices into solvers (nil = all).
func solve(script string, timeoutS int, seed int, useCvc5 bool) SolveResult {
	file := scratchFile("q", ".smt2")
	if err := os.WriteFile(file, []byte(script), 0o644); err != nil {
		panic(err)
	}
	defer os.Remove(file)
	type one struct {
		name string
		v    Verdict
		out  string
		secs float64
	}
	ctx, cancel := context.WithCancel(context.Background())
	defer cancel()
	ch := make(chan one, len(solvers))
	n := 0
	for _, s := range solvers {
		if strings.HasPrefix(s.name, "cvc5") && (!useCvc5 || lambdaRe.MatchString(script)) {
			continue
		}
		n++
		go func(s solverSpec) {
			start := time.Now()
			argv := s.argv(file, timeoutS, seed)
			cmd := exec.CommandContext(ctx, argv[0], argv[1:]...)
			var out bytes.Buffer
			cmd.Stdout = &out
			cmd.Stderr = &out
			cmd.Run()
			txt := stripWarnings(out.String())
			first := strings.TrimSpace(strings.SplitN(txt, "\n", 2)[0])
			v := VUnknown
			switch first {
			case "unsat":
				v = VUnsat
			case "sat":
				v = VSat
			}
			if strings.HasPrefix(first, "(error") && ctx.Err() == nil {
				noteScriptError(s.name + ": " + first)
			}
			ch <- one{s.name, v, txt, time.Since(start).Seconds()}
		}(s)
	}
	res := SolveResult{All: map[string]string{}}
	for i := 0; i < n; i++ {
		o := <-ch
		first := strings.TrimSpace(strings.SplitN(o.out, "\n", 2)[0])
		res.All[o.name] = fmt.Sprintf("%s (%.2fs)", first, o.secs)
		if o.v != VUnknown && res.Verdict == VUnknown {
			res.Verdict, res.Solver, res.Seconds, res.Output = o.v, o.name, o.secs, o.out
			if crossCheck && i < n-1 {
				confirmed := false
				grace := time.After(10 * time.Second)
			wait:
				for j := i + 1; j < n; j++ {
					select {
					case o2 := <-ch:
						first2 := strings.TrimSpace(strings.SplitN(o2.out, "\n", 2)[0])
						res.All[o2.name] = fmt.Sprintf("%s (%.2fs)", first2, o2.secs)
						if o2.v != VUnknown {
							if o2.v != o.v {
								noteScriptError(fmt.Sprintf("SOLVER DISAGREEMENT: %s says %s, %s says %s", o.name, o.v, o2.name, o2.v))
							} else {
								confirmed = true
							}
						}
					case <-grace:
						break wait
					}
				}
				crossMu.Lock()
				if confirmed {
					crossConfirmed++
				} else {
					crossAlone++
				}
				crossMu.Unlock()
				cancel()
				return res
			}
			cancel()
			// drain remaining in background
			go func(k int) {
				for j := 0; j < k; j++ {
					<-ch
				}
			}(n - i - 1)
			return res
		}
		if res.Seconds < o.secs {
			res.Seconds = o.secs
		}
		if res.Output == "" || len(o.out) > 0 {
			res.Output += "[" + o.name + "] " + truncate(o.out, 400) + "\n"
		}
	}
	return res
}

// stripWarnings drops the solver's WARNING lines (for instance about a pattern that contains an
// expanded definition), which precede the verdict.
func stripWarnings(out string) string {
	if !strings.Contains(out, "WARNING") {
		return out
	}
	var keep []string
	for _, l := range strings.Split(out, "\n") {
		if strings.HasPrefix(strings.TrimSpace(l), "WARNING") {
			continue
		}
		keep = append(keep, l)
	}
	return strings.Join(keep, "\n")
}

func truncate(s string, n int) string {
	if len(s) <= n {
		return s
	}
	return s[:n] + "…"
}

// parseModel extracts (define-fun name () Sort value) entries for 0-ary ints/bools.
var defFunRe = regexp.MustCompile(`\(define-fun ([^ ]+) \(\) (Int|Bool)\s+((?:\(- \d+\))|[^\s()]+)\)`)

func parseModelScalars(out string) map[string]string {
	m := map[string]string{}
	flat := strings.Join(strings.Fields(out), " ")
	for _, g := range defFunRe.FindAllStringSubmatch(flat, -1) {
		v := g[3]
		if strings.HasPrefix(v, "(- ") {
			v = "-" + strings.TrimSuffix(strings.TrimPrefix(v, "(- "), ")")
		}
		m[g[1]] = v
	}
	return m
}
