package main

// Program loading and the per-function verification driver.

import (
	"fmt"
	"go/ast"
	"go/token"
	"go/types"
	"os"
	"path/filepath"
	"regexp"
	"sort"
	"strings"
	"sync"

	"golang.org/x/tools/go/packages"
)

type Prog struct {
	fset          *token.FileSet
	pkgs          []*packages.Package
	byPath        map[string]*packages.Package
	allTypes      []*types.Package
	spec          *SpecSet
	funcDecl      map[string]*ast.FuncDecl
	funcPkg       map[string]*packages.Package
	funcByKey     map[string]*types.Func
	codeRegex     map[string]string // language name -> pattern (from the code)
	rxMu          sync.Mutex
	repoDir       string
	specDir       string
	axiomsForLang map[string][]string // language -> SMT axioms contributed by proved lemmas
	lemmaAxioms   map[string]lemmaAx
	markers       []string
	opaqueDefs    map[string]string
	errIDs        map[string]int

	heapKeyOnce     sync.Once
	heapKeysByField map[string][]string
	heapKeysByElem  map[string][]string
}

const modPath = "github.com/google/safehtml"

func loadProg(repoDir, specDir string) (*Prog, error) {
	cfg := &packages.Config{
		Mode: packages.NeedName | packages.NeedFiles | packages.NeedSyntax | packages.NeedTypes |
			packages.NeedTypesInfo | packages.NeedImports | packages.NeedDeps,
		Dir:        repoDir,
		BuildFlags: []string{"-tags=verif"},
		Env:        append(os.Environ(), "GOFLAGS=-mod=mod", "GOPROXY=off", "GOSUMDB=off", "GOTOOLCHAIN=local"),
	}
	pkgs, err := packages.Load(cfg, "./...")
	if err != nil {
		return nil, err
	}
	p := &Prog{byPath: map[string]*packages.Package{}, spec: newSpecSet(), funcDecl: map[string]*ast.FuncDecl{},
		funcPkg: map[string]*packages.Package{}, funcByKey: map[string]*types.Func{}, codeRegex: map[string]string{},
		repoDir: repoDir, specDir: specDir, axiomsForLang: map[string][]string{}}
	for _, pk := range pkgs {
		if len(pk.Errors) > 0 {
			return nil, fmt.Errorf("package %s does not type-check: %v", pk.PkgPath, pk.Errors[0])
		}
		p.fset = pk.Fset
		p.pkgs = append(p.pkgs, pk)
		p.byPath[pk.PkgPath] = pk
	}
	seen := map[*types.Package]bool{}
	var walk func(tp *types.Package)
	walk = func(tp *types.Package) {
		if seen[tp] {
			return
		}
		seen[tp] = true
		p.allTypes = append(p.allTypes, tp)
		for _, im := range tp.Imports() {
			walk(im)
		}
	}
	for _, pk := range pkgs {
		walk(pk.Types)
	}
	for _, pk := range p.pkgs {
		for _, f := range pk.Syntax {
			for _, d := range f.Decls {
				fd, ok := d.(*ast.FuncDecl)
				if !ok {
					continue
				}
				obj, ok := pk.TypesInfo.Defs[fd.Name].(*types.Func)
				if !ok {
					continue
				}
				k := funcKey(obj)
				if fd.Name.Name == "init" {
					continue
				}
				p.funcDecl[k] = fd
				p.funcPkg[k] = pk
				p.funcByKey[k] = obj
			}
		}
	}
	// clause macros are defined in spec files but used in contract files, which are read first
	if mspecs, _ := filepath.Glob(filepath.Join(specDir, "*.spec")); true {
		for _, sf := range mspecs {
			if err := p.spec.loadMacros(sf); err != nil {
				return nil, err
			}
		}
	}
	// dependency functions referenced by assumed contracts are resolved lazily
	// contract files in the repo
	for _, pk := range p.pkgs {
		for _, gf := range pk.GoFiles {
			if filepath.Base(gf) == "zz_contracts_verif.go" {
				if err := p.spec.loadContractFile(gf, pk.PkgPath); err != nil {
					return nil, err
				}
			}
		}
	}
	specs, _ := filepath.Glob(filepath.Join(specDir, "*.spec"))
	sort.Strings(specs)
	for _, sf := range specs {
		if err := p.spec.loadSpecFile(sf); err != nil {
			return nil, err
		}
	}
	// "modset NAME: KEY KEY ..." names a group of heap locations; "@NAME" in a modifies option
	// stands for the group
	sets := map[string]string{}
	for _, r := range p.spec.Raw["modset"] {
		if k := strings.Index(r.Text, ":"); k > 0 {
			sets[strings.TrimSpace(r.Text[:k])] = strings.TrimSpace(r.Text[k+1:])
		}
	}
	for _, c := range p.spec.Contracts {
		if m, ok := c.Options["modifies"]; ok && strings.Contains(m, "@") {
			var out []string
			for _, f := range strings.Fields(m) {
				if strings.HasPrefix(f, "@") {
					g, ok := sets[f[1:]]
					if !ok {
						return nil, fmt.Errorf("%s:%d: unknown modifies group %s", c.File, c.Line, f)
					}
					out = append(out, strings.Fields(g)...)
				} else {
					out = append(out, f)
				}
			}
			c.Options["modifies"] = strings.Join(out, " ")
		}
	}
	if err := p.buildPolicy(); err != nil {
		return nil, err
	}
	return p, nil
}

func (p *Prog) lookupFunc(key string) *types.Func {
	if f, ok := p.funcByKey[key]; ok {
		return f
	}
	// pkgpath.Name or pkgpath.(T).Name in a dependency
	i := strings.LastIndex(key, ".")
	if i < 0 {
		return nil
	}
	name := key[i+1:]
	rest := key[:i]
	recv := ""
	if strings.HasSuffix(rest, ")") {
		j := strings.LastIndex(rest, ".(")
		recv = rest[j+2 : len(rest)-1]
		rest = rest[:j]
	}
	for _, tp := range p.allTypes {
		if tp.Path() != rest {
			continue
		}
		if recv == "" {
			if f, ok := tp.Scope().Lookup(name).(*types.Func); ok {
				return f
			}
			return nil
		}
		tn, ok := tp.Scope().Lookup(recv).(*types.TypeName)
		if !ok {
			return nil
		}
		obj, _, _ := types.LookupFieldOrMethod(types.NewPointer(tn.Type()), true, tp, name)
		if f, ok := obj.(*types.Func); ok {
			return f
		}
	}
	return nil
}

func shortPkg(path string) string {
	if path == modPath {
		return "safehtml"
	}
	return strings.TrimPrefix(path, modPath+"/")
}

func shortFuncName(key string) string {
	k := strings.TrimPrefix(key, modPath)
	k = strings.TrimPrefix(k, "/")
	if k == "" {
		return key
	}
	if strings.HasPrefix(k, ".") {
		return "safehtml" + k
	}
	return k
}

// numberLoops assigns source-order ordinals to the loops of a function.
func numberLoops(fd *ast.FuncDecl) map[ast.Node]int {
	m := map[ast.Node]int{}
	n := 0
	ast.Inspect(fd.Body, func(x ast.Node) bool {
		switch x.(type) {
		case *ast.ForStmt, *ast.RangeStmt:
			n++
			m[x] = n
		case *ast.FuncLit:
			return false
		}
		return true
	})
	return m
}

type FuncReport struct {
	Key     string
	Obs     []*Obligation
	Err     string // engine error (outside subset, contract drift)
	Drift   bool
	Trusted []string
	fx      *FuncCtx
}

func (p *Prog) newFuncCtx(key string) (*FuncCtx, error) {
	fd := p.funcDecl[key]
	pk := p.funcPkg[key]
	con := p.spec.Contracts[key]
	if fd == nil {
		return nil, fmt.Errorf("function %s not found in the repository", key)
	}
	if con == nil {
		return nil, fmt.Errorf("function %s has no contract", key)
	}
	fx := &FuncCtx{prog: p, pkg: pk, decl: fd, obj: p.funcByKey[key], con: con, key: key, short: shortFuncName(key),
		counts: map[string]int{}, trusted: map[string]bool{}, langsUsed: map[string]bool{}, specUsed: map[string]bool{},
		params: map[string]types.Object{}, ghostLocals: map[string]types.Object{}, loopOrd: numberLoops(fd)}
	return fx, nil
}

// verifyFunc generates all obligations of one function under contract.
func (p *Prog) verifyFunc(key string) (rep *FuncReport) {
	rep = &FuncReport{Key: key}
	// bound-variable names restart per function: the script of a function must not depend on which
	// functions were processed before it (solvers are sensitive to symbol names)
	quantSeq = 0
	fx, err := p.newFuncCtx(key)
	if err != nil {
		rep.Err, rep.Drift = err.Error(), true
		return
	}
	rep.fx = fx
	defer func() {
		if r := recover(); r != nil {
			switch e := r.(type) {
			case unsupported:
				rep.Err = "outside the modelled subset: " + e.msg
			case contractDrift:
				rep.Err, rep.Drift = "contract drift: "+e.msg, true
			default:
				panic(r)
			}
		}
		rep.Obs = fx.obs
		for t := range fx.trusted {
			rep.Trusted = append(rep.Trusted, t)
		}
		sort.Strings(rep.Trusted)
	}()
	fx.run()
	return
}

func (fx *FuncCtx) run() {
	p := fx.prog
	con := fx.con
	sig := fx.obj.Type().(*types.Signature)
	info := fx.pkg.TypesInfo
	st := &State{pc: "true", env: map[types.Object]Val{}}
	// loops named in the contract must exist
	for ord := range con.Loops {
		found := false
		for _, o := range fx.loopOrd {
			if o == ord {
				found = true
			}
		}
		if !found {
			panic(contractDrift{fmt.Sprintf("contract of %s names loop %d, which does not exist", fx.key, ord)})
		}
	}
	// receiver
	if fx.decl.Recv != nil && len(fx.decl.Recv.List) == 1 && len(fx.decl.Recv.List[0].Names) == 1 {
		id := fx.decl.Recv.List[0].Names[0]
		obj := info.Defs[id]
		st.env[obj] = fx.fresh(obj.Type(), id.Name)
		if emb := strings.Fields(con.Options["embedded"]); len(emb) == 1 {
			// "option embedded OWNER.FIELD": the receiver points to the by-value field FIELD of an
			// OWNER object (checked at every call site: the argument must be exactly such a field)
			if k := strings.Index(emb[0], "."); k > 0 {
				owner, path := emb[0][:k], emb[0][k+1:]
				ft := fx.prog.fieldType(owner, path)
				if ft == nil {
					panic(unsupported{"option embedded names an unknown field " + emb[0]})
				}
				r := fx.declare(sortInt, id.Name+"_owner")
				fx.emit(fmt.Sprintf("(assert (<= 1 %s))", r))
				st.env[obj] = VSub{Ref: r, Elem: owner, Path: path, T: ft}
			}
		}
		fx.params[id.Name] = obj
		if con.RecvName != "" && con.RecvName != id.Name {
			panic(contractDrift{fmt.Sprintf("contract of %s names the receiver %q, the code %q", fx.key, con.RecvName, id.Name)})
		}
	}
	// parameters
	var pnames []string
	for _, f := range fx.decl.Type.Params.List {
		for _, id := range f.Names {
			pnames = append(pnames, id.Name)
			obj := info.Defs[id]
			if id.Name == "_" {
				continue
			}
			st.env[obj] = fx.fresh(obj.Type(), id.Name)
			fx.params[id.Name] = obj
		}
		if len(f.Names) == 0 {
			pnames = append(pnames, "_")
		}
	}
	if len(pnames) != len(con.Params) {
		panic(contractDrift{fmt.Sprintf("contract of %s lists %d parameters, the code has %d", fx.key, len(con.Params), len(pnames))})
	}
	for i := range pnames {
		if pnames[i] != con.Params[i] {
			panic(contractDrift{fmt.Sprintf("contract of %s names parameter %d %q, the code %q", fx.key, i+1, con.Params[i], pnames[i])})
		}
	}
	// results
	if sig.Results().Len() != len(con.Results) {
		panic(contractDrift{fmt.Sprintf("contract of %s lists %d results, the code has %d", fx.key, len(con.Results), sig.Results().Len())})
	}
	fx.resNames = con.Results
	if fx.decl.Type.Results != nil {
		for _, f := range fx.decl.Type.Results.List {
			for _, id := range f.Names {
				obj := info.Defs[id]
				st.env[obj] = fx.zero(obj.Type())
				fx.results = append(fx.results, obj)
			}
		}
	}
	fx.entry = st.clone()
	// requires
	for _, rq := range con.Requires {
		ce := fx.clauseEv(st, fx.decl.Body.Lbrace+1, nil)
		fx.assume("true", ce.boolOf(ce.ev(rq.Expr), rq.Expr))
	}
	for _, v := range st.env {
		for _, rt := range refTermsOf(v) {
			fx.emit("(assert (<= " + rt + " " + fx.allocTerm(st) + "))")
		}
	}
	fx.initHeap(st)
	fx.entry = st.clone()
	x := &Exec{fx: fx, info: info}
	var flow *Flow
	if len(con.Steps) == 0 {
		flow = x.block(fx.decl.Body.List, st)
	} else {
		// top-level statements one at a time, with the contract's waypoints proved and then assumed
		flow = &Flow{}
		cur := st
		stopAfter := 0
		if v := con.Options["stopafter"]; v != "" {
			fmt.Sscanf(v, "%d", &stopAfter)
			if len(con.Ensures) > 0 {
				fx.trusted[fmt.Sprintf("%s: only the first %d top-level statement(s) are verified (option stopafter); the rest of the body is outside the subset and unverified, so the %d ensures clauses of its contract are ASSUMED for its callers", fx.short, stopAfter, len(con.Ensures))] = true
			} else {
				fx.trusted[fmt.Sprintf("%s: only the first %d top-level statements are verified (option stopafter); the rest of the body is outside the subset and unverified - its waypoint shows that the guarded condition cannot reach it", fx.short, stopAfter)] = true
			}
		}
		for si, stm := range fx.decl.Body.List {
			if cur == nil {
				break
			}
			if stopAfter > 0 && si >= stopAfter {
				cur = nil
				break
			}
			pre := cur.clone()
			f := x.stmt(stm, cur)
			flow.absorb(f)
			cur = f.fall
			if cur == nil {
				continue
			}
			for ci, sc := range con.Steps[si+1] {
				lbl := sc.Label
				if lbl == "" {
					lbl = fmt.Sprintf("%d", ci+1)
				}
				ce := fx.clauseEv(cur, stm.End(), nil)
				ce.beforeEv = fx.clauseEv(pre, stm.Pos(), nil)
				t := ce.boolOf(ce.ev(sc.Expr), sc.Expr)
				fx.obligeSplit("step", fmt.Sprintf("step%d.%s", si+1, lbl), stm.Pos(), cur.pc, t, "waypoint after statement "+fmt.Sprint(si+1)+": "+sc.Text)
			}
			if len(con.Steps[si+1]) > 0 {
				// cut: buffers keep only what the waypoints state about them
				for o, v := range cur.env {
					if _, isBuf := v.(VBuf); isBuf {
						cur.env[o] = fx.havocLike(v, o)
					}
				}
				for _, sc := range con.Steps[si+1] {
					ce := fx.clauseEv(cur, stm.End(), nil)
					ce.beforeEv = fx.clauseEv(pre, stm.Pos(), nil)
					fx.assume(cur.pc, ce.boolOf(ce.ev(sc.Expr), sc.Expr))
				}
			}
		}
		for n := range con.Steps {
			if n < 1 || n > len(fx.decl.Body.List) {
				panic(contractDrift{fmt.Sprintf("contract of %s has a step for statement %d, the body has %d statements", fx.key, n, len(fx.decl.Body.List))})
			}
		}
		flow.fall = cur
	}
	if flow.fall != nil {
		if sig.Results().Len() == 0 || len(fx.results) > 0 {
			x.runDeferred(flow.fall)
			r := &RetState{st: flow.fall, pos: fx.decl.Body.Rbrace, ord: x.nret + 1}
			for _, o := range fx.results {
				r.vals = append(r.vals, flow.fall.env[o])
			}
			flow.rets = append(flow.rets, r)
		}
	}
	if len(flow.brk) > 0 || len(flow.cont) > 0 {
		panic(unsupported{"break/continue outside a loop"})
	}
	// postconditions
	for _, r := range flow.rets {
		// parameters in postconditions denote entry values
		pst := r.st.clone()
		for _, o := range fx.params {
			if v, ok := fx.entry.env[o]; ok {
				// buffers passed by pointer keep their final state
				if _, isBuf := v.(VBuf); isBuf {
					continue
				}
				pst.env[o] = v
			}
		}
		fx.copyHeapForPost(pst, r.st)
		for i, en := range con.Ensures {
			lbl := en.Label
			if lbl == "" {
				lbl = fmt.Sprintf("ensures%d", i+1)
			}
			ce := fx.clauseEv(pst, fx.decl.Body.Lbrace+1, r.vals)
			t := ce.boolOf(ce.ev(en.Expr), en.Expr)
			fx.obligeSplit("post", fmt.Sprintf("post.%s@ret%d", lbl, r.ord), r.pos, r.st.pc, t, "postcondition at return: "+en.Text)
		}
		for _, dm := range con.Demonstrates {
			ce := fx.clauseEv(pst, fx.decl.Body.Lbrace+1, r.vals)
			t := ce.boolOf(ce.ev(dm.Expr), dm.Expr)
			ob := fx.oblige("finding", fmt.Sprintf("finding.%s@ret%d", dm.Label, r.ord), r.pos, r.st.pc, t, "statement whose proof exhibits known finding "+dm.Finding+": "+dm.Text)
			ob.FindingID = dm.Finding
		}
	}
	// frame: heap locations written by the body must be listed in the modifies clause
	if len(fx.heapWritten) > 0 {
		allowed := map[string]bool{}
		for _, k := range strings.Fields(con.Options["modifies"]) {
			allowed[k] = true
		}
		var keys []string
		for k := range fx.heapWritten {
			keys = append(keys, k)
		}
		sort.Strings(keys)
		for _, k := range keys {
			if allowed[k] || strings.HasSuffix(k, ".held") && con.Options["locks"] == "true" {
				continue
			}
			for _, r := range flow.rets {
				cur := fx.hget(r.st, k, fx.heapSort[k])
				goal := sEq(cur, fx.heapInitial(k, fx.heapSort[k]))
				if strings.HasPrefix(fx.heapSort[k], "(Array Int ") && cur != fx.heapInitial(k, fx.heapSort[k]) {
					// objects allocated by this call may be initialised freely
					goal = fmt.Sprintf("(forall ((p!f Int)) (=> (<= p!f %s) (= (select %s p!f) (select %s p!f))))", fx.allocTerm(fx.entry), cur, fx.heapInitial(k, fx.heapSort[k]))
				}
				fx.oblige("frame", fmt.Sprintf("frame.%s@ret%d", sanitizeIdent(k), r.ord), r.pos, r.st.pc, goal, "heap location "+k+" is not in the modifies clause and must be unchanged on objects that existed at entry")
			}
		}
	}
	// relational frame: the result depends only on the listed parts of the parameters
	if dep := con.Options["dependsonly"]; dep != "" {
		fx.relationalFrame(strings.Fields(dep), flow, info)
	}
	// vacuity: the end of each return path must be reachable, and false must not be provable at entry
	if len(flow.rets) > 0 {
		var pcs []Term
		for _, r := range flow.rets {
			pcs = append(pcs, r.st.pc)
		}
		ob := fx.oblige("cover", "cover.some-return", fx.decl.Pos(), "true", sNot(sOr(pcs...)), "some return is reachable under the precondition (vacuity guard)")
		ob.Expect = VSat
		ob.Canary = true
	}
	_ = p
}

// header assembles the SMT prelude for the function's script.
func (fx *FuncCtx) header() string {
	var lemmas []string
	if fx.con != nil {
		lemmas = strings.Fields(fx.con.Options["uses"])
	}
	return fx.prog.header(fx.useSeq, fx.specUsed, fx.langsUsed, lemmas)
}

// langDefAxiom gives the definitional fact of a named language when it is a boolean combination
// of named languages or a literal.
func (p *Prog) langDefAxiom(name string) (string, []string) {
	ld, ok := p.spec.Langs[name]
	if !ok || ld.Code || ld.Expr == nil {
		return "", nil
	}
	call, ok := ld.Expr.(*ast.CallExpr)
	if !ok {
		return "", nil
	}
	fn := call.Fun.(*ast.Ident).Name
	if fn == "regex" {
		pat, err := litString(call.Args[0])
		if err != nil {
			return "", nil
		}
		if ax := charSeqAxiom(name, pat); ax != "" {
			return ax, nil
		}
		return classShapeAxiom(name, pat), nil
	}
	if fn == "lquot" || fn == "rquot" {
		base, ok := call.Args[0].(*ast.Ident)
		w, err := litString(call.Args[1])
		if !ok || err != nil {
			return "", nil
		}
		arg := "(bs_cat " + seqLit(w) + " s)"
		if fn == "rquot" {
			arg = "(bs_cat s " + seqLit(w) + ")"
		}
		return fmt.Sprintf("(assert (forall ((s BSeq)) (! (= (inlang_%s s) (inlang_%s %s)) :pattern ((inlang_%s s)))))", name, base.Name, arg, name), []string{base.Name}
	}
	if fn == "lit" {
		s, err := litString(call.Args[0])
		if err != nil {
			return "", nil
		}
		return fmt.Sprintf("(assert (forall ((s BSeq)) (! (= (inlang_%s s) (= s %s)) :pattern ((inlang_%s s)))))", name, seqLit(s), name), nil
	}
	var ns []string
	for _, a := range call.Args {
		id, ok := a.(*ast.Ident)
		if !ok {
			return "", nil
		}
		ns = append(ns, id.Name)
	}
	if fn == "lowerpre" {
		return fmt.Sprintf("(assert (forall ((s BSeq)) (! (= (inlang_%s s) (inlang_%s (lower s))) :pattern ((inlang_%s s)) :pattern ((inlang_%s (lower s))))))", name, ns[0], name, ns[0]), append(ns, "@lower")
	}
	var body string
	switch fn {
	case "and", "or":
		var ts []string
		for _, n := range ns {
			ts = append(ts, fmt.Sprintf("(inlang_%s s)", n))
		}
		body = "(" + fn + " " + strings.Join(ts, " ") + ")"
	case "not":
		body = fmt.Sprintf("(not (inlang_%s s))", ns[0])
	case "minus":
		body = fmt.Sprintf("(and (inlang_%s s) (not (inlang_%s s)))", ns[0], ns[1])
	default:
		return "", nil
	}
	var pats []string
	pats = append(pats, fmt.Sprintf(":pattern ((inlang_%s s))", name))
	for _, n := range ns {
		pats = append(pats, fmt.Sprintf(":pattern ((inlang_%s s))", n))
	}
	return fmt.Sprintf("(assert (forall ((s BSeq)) (! (= (inlang_%s s) %s) %s)))", name, body, strings.Join(pats, " ")), ns
}

func (p *Prog) header(useSeq bool, specUsed, langsUsed map[string]bool, lemmas []string) string {
	var b strings.Builder
	b.WriteString("(set-option :produce-models true)\n")
	// closure of spec functions
	need := map[string]bool{}
	langs := map[string]bool{}
	for l := range langsUsed {
		langs[l] = true
	}
	defs := map[string]string{}
	var defOrder []string
	var visit func(n string)
	visit = func(n string) {
		if need[n] {
			return
		}
		sf, ok := p.spec.Funcs[n]
		if !ok {
			if isBuiltinSpec(n) {
				need[n] = true
				for _, d := range builtinSpecDeps[n] {
					need[d] = true
				}
			}
			return
		}
		need[n] = true
		def, uses, ls, us := p.specFuncDef(sf)
		defs[n] = def
		if us {
			useSeq = true
		}
		for l := range ls {
			langs[l] = true
		}
		var us2 []string
		for u := range uses {
			us2 = append(us2, u)
		}
		sort.Strings(us2)
		for _, u := range us2 {
			visit(u)
		}
		defOrder = append(defOrder, n) // dependencies first
	}
	var roots []string
	for n := range specUsed {
		roots = append(roots, n)
	}
	sort.Strings(roots)
	for _, n := range roots {
		visit(n)
	}
	// axioms: included when they mention a needed function or language
	type ax struct{ name, text string }
	var axioms []ax
	for changed := true; changed; {
		changed = false
		axioms = axioms[:0]
		for _, a := range p.spec.Axioms {
			t, uses, ls, us := p.axiomTerm(a)
			rel := false
			for u := range uses {
				if need[u] {
					rel = true
				}
			}
			for l := range ls {
				if langs[l] {
					rel = true
				}
			}
			if !rel {
				continue
			}
			if us {
				useSeq = true
			}
			for u := range uses {
				if !need[u] {
					visit(u)
					changed = true
				}
			}
			for l := range ls {
				if !langs[l] {
					langs[l] = true
					changed = true
				}
			}
			axioms = append(axioms, ax{a.Name, t})
		}
	}
	var lemmaTexts []string
	for _, ln := range lemmas {
		if ln == "seq_extensionality" {
			// opt-in: two views of equal length and equal bytes denote the same abstract sequence
			// (sound under the intended reading bs_val b o l = b[o..o+l)); needed where two symbolic
			// strings are compared with ==
			lemmaTexts = append(lemmaTexts, seqExtensionality)
			continue
		}
		la, ok := p.lemmaAxioms[ln]
		if !ok {
			panic(unsupported{"contract uses lemma " + ln + ", which does not exist or has no axiom form"})
		}
		lemmaTexts = append(lemmaTexts, la.text)
		for _, l := range la.langs {
			langs[l] = true
		}
	}
	var defTexts []string
	doneDef := map[string]bool{}
	for changed := true; changed; {
		changed = false
		var cur []string
		for l := range langs {
			cur = append(cur, l)
		}
		sort.Strings(cur)
		for _, l := range cur {
			if doneDef[l] {
				continue
			}
			doneDef[l] = true
			ax, deps := p.langDefAxiom(l)
			if ax == "" {
				continue
			}
			defTexts = append(defTexts, ax)
			for _, d := range deps {
				if d == "@lower" {
					visit("lower")
					continue
				}
				if !langs[d] {
					langs[d] = true
					changed = true
				}
			}
		}
	}
	if len(langs) > 0 {
		useSeq = true
	}
	if useSeq {
		b.WriteString(seqPrelude)
	}
	for _, n := range builtinSpecOrder {
		if need[n] {
			b.WriteString(builtinSpecs[n])
			b.WriteString("\n")
		}
	}
	var ln []string
	for l := range langs {
		ln = append(ln, l)
	}
	sort.Strings(ln)
	for _, l := range ln {
		fmt.Fprintf(&b, "(declare-fun inlang_%s (BSeq) Bool)\n", l)
	}
	for _, n := range defOrder {
		b.WriteString(defs[n])
		b.WriteString("\n")
	}
	for _, a := range axioms {
		fmt.Fprintf(&b, "(assert (! %s :named ax_%s))\n", a.text, sanitizeIdent(a.name))
	}
	for _, t := range defTexts {
		b.WriteString(t)
		b.WriteString("\n")
	}
	for _, t := range lemmaTexts {
		b.WriteString(t)
		b.WriteString("\n")
	}
	return b.String()
}

func (p *Prog) axiomTerm(a *Axiom) (Term, map[string]bool, map[string]bool, bool) {
	fx := &FuncCtx{prog: p, counts: map[string]int{}, trusted: map[string]bool{}, langsUsed: map[string]bool{}, specUsed: map[string]bool{}}
	ev := &Ev{fx: fx, st: &State{pc: "true"}, contract: true, bound: map[string]Val{}}
	// free identifiers of an axiom are universally quantified: allX(x int, s seq, P)
	t := ev.boolOf(ev.ev(a.Clause.Expr), a.Clause.Expr)
	return t, fx.specUsed, fx.langsUsed, fx.useSeq
}

const seqPreludeEnd = "(bs_val b o2 l2)))))\n"

const seqPrelude = `(declare-sort BSeq 0)
(declare-const bs_empty BSeq)
(declare-fun bs_unit (Int) BSeq)
(declare-fun bs_cat (BSeq BSeq) BSeq)
(declare-fun bs_len (BSeq) Int)
(declare-fun bs_val ((Array Int Int) Int Int) BSeq)
(assert (forall ((a BSeq)) (! (= (bs_cat a bs_empty) a) :pattern ((bs_cat a bs_empty)))))
(assert (forall ((a BSeq)) (! (= (bs_cat bs_empty a) a) :pattern ((bs_cat bs_empty a)))))
(assert (forall ((a BSeq) (b BSeq) (c BSeq)) (! (= (bs_cat (bs_cat a b) c) (bs_cat a (bs_cat b c))) :pattern ((bs_cat (bs_cat a b) c)))))
(assert (forall ((a BSeq) (b BSeq)) (! (= (bs_len (bs_cat a b)) (+ (bs_len a) (bs_len b))) :pattern ((bs_cat a b)))))
(assert (= (bs_len bs_empty) 0))
(assert (forall ((c Int)) (! (= (bs_len (bs_unit c)) 1) :pattern ((bs_unit c)))))
(assert (forall ((a BSeq)) (! (>= (bs_len a) 0) :pattern ((bs_len a)))))
(assert (forall ((b (Array Int Int)) (o Int)) (! (= (bs_val b o 0) bs_empty) :pattern ((bs_val b o 0)))))
(assert (forall ((b (Array Int Int)) (o Int)) (! (= (bs_val b o 1) (bs_unit (select b o))) :pattern ((bs_val b o 1)))))
(assert (forall ((b (Array Int Int)) (o Int) (l Int)) (! (=> (>= l 0) (= (bs_len (bs_val b o l)) l)) :pattern ((bs_val b o l)))))
(assert (forall ((b (Array Int Int)) (o Int) (l Int) (m Int)) (! (=> (and (<= 0 m) (<= m l)) (= (bs_val b o l) (bs_cat (bs_val b o m) (bs_val b (+ o m) (- l m))))) :pattern ((bs_val b o l) (bs_val b o m)))))
(assert (forall ((b (Array Int Int)) (o Int) (l Int) (o2 Int) (l2 Int)) (! (=> (and (<= o o2) (<= 0 l2) (= (+ o2 l2) (+ o l))) (= (bs_val b o l) (bs_cat (bs_val b o (- o2 o)) (bs_val b o2 l2)))) :pattern ((bs_val b o l) (bs_val b o2 l2)))))
`

const seqExtensionality = `(assert (forall ((b1 (Array Int Int)) (o1 Int) (b2 (Array Int Int)) (o2 Int) (l Int)) (! (=> (and (>= l 0) (forall ((k Int)) (=> (and (<= 0 k) (< k l)) (= (select b1 (+ o1 k)) (select b2 (+ o2 k)))))) (= (bs_val b1 o1 l) (bs_val b2 o2 l))) :pattern ((bs_val b1 o1 l) (bs_val b2 o2 l)))))
(declare-fun bs_at (BSeq Int) Int)
(assert (forall ((b (Array Int Int)) (o Int) (l Int) (k Int)) (! (=> (and (<= 0 k) (< k l)) (= (bs_at (bs_val b o l) k) (select b (+ o k)))) :pattern ((bs_at (bs_val b o l) k)))))
(assert (forall ((b (Array Int Int)) (o Int) (l Int) (k Int)) (! (=> (and (<= 0 k) (< k l)) (= (bs_at (bs_val b o l) k) (select b (+ o k)))) :pattern ((bs_val b o l) (select b (+ o k))))))`

var builtinSpecOrder = []string{"dyntype", "sortedof", "fields_n", "iface_pack", "hexdigl", "hexdigu", "hex2lower", "hex6upper", "utf8enc", "utf8len", "utf8dec", "bs_nth"}
var builtinSpecs = map[string]string{
	"dyntype":    "(declare-fun dyntype (Int) Int)",
	"sortedof":   "(declare-fun joinof ((Array Int (Array Int Int)) (Array Int Int) (Array Int Int) Int BSeq) BSeq)",
	"fields_n":   "(declare-fun fields_n (BSeq) Int)\n(declare-fun fields_b (BSeq) (Array Int (Array Int Int)))\n(declare-fun fields_o (BSeq) (Array Int Int))\n(declare-fun fields_l (BSeq) (Array Int Int))\n(assert (forall ((s BSeq)) (! (<= 0 (fields_n s)) :pattern ((fields_n s)))))",
	"iface_pack": "(declare-fun iface_pack (Int BSeq) BSeq)",
	"hexdigl":    "(define-fun hexdigl ((d Int)) Int (ite (< d 10) (+ 48 d) (+ 87 d)))",
	"hexdigu":    "(define-fun hexdigu ((d Int)) Int (ite (< d 10) (+ 48 d) (+ 55 d)))",
	"hex2lower":  "(define-fun hex2lower ((c Int)) BSeq (bs_cat (bs_unit (hexdigl (div c 16))) (bs_unit (hexdigl (mod c 16)))))",
	"hex6upper":  "(define-fun hex6upper ((c Int)) BSeq (bs_cat (bs_unit (hexdigu (mod (div c 1048576) 16))) (bs_cat (bs_unit (hexdigu (mod (div c 65536) 16))) (bs_cat (bs_unit (hexdigu (mod (div c 4096) 16))) (bs_cat (bs_unit (hexdigu (mod (div c 256) 16))) (bs_cat (bs_unit (hexdigu (mod (div c 16) 16))) (bs_unit (hexdigu (mod c 16)))))))))",
	"utf8enc":    "(declare-fun utf8enc (BSeq) BSeq)",
	"utf8len":    "(declare-fun utf8len (Int) Int)\n(assert (forall ((c Int)) (! (and (= (bs_len (utf8enc (bs_unit c))) (utf8len c)) (<= 1 (utf8len c)) (<= (utf8len c) 4)) :pattern ((utf8enc (bs_unit c))))))",
	"utf8dec":    "(declare-fun utf8dec (BSeq) BSeq)",
	"bs_nth":     "(declare-fun bs_nth (BSeq Int) Int)",
}
var builtinSpecDeps = map[string][]string{"hex2lower": {"hexdigl"}, "hex6upper": {"hexdigu"}, "utf8len": {"utf8enc"}}

func isBuiltinSpec(n string) bool {
	_, ok := builtinSpecs[n]
	return ok
}

func (fx *FuncCtx) scriptFor(ob *Obligation) string {
	return fx.scriptForMode(ob, true)
}

// scriptForMode assembles the script; prune=false keeps every assumption.
func (fx *FuncCtx) scriptForMode(ob *Obligation, prune bool) string {
	fx.hdrOnce.Do(func() {
		for n, deps := range builtinSpecDeps {
			if fx.specUsed[n] {
				for _, d := range deps {
					fx.specUsed[d] = true
				}
			}
		}
		fx.hdr = fx.header()
		fx.hdrLines = strings.Split(fx.hdr, "\n")
	})
	var b strings.Builder
	tn := fx.tainter()
	goalT := tn.of(ob.Goal + " " + ob.PC)
	keep := func(l string) bool {
		if !prune {
			return true
		}
		if !(strings.HasPrefix(l, "(assert") || strings.HasPrefix(l, "(define-fun")) {
			return true
		}
		for f := range tn.of(l) {
			if !goalT[f] {
				return false
			}
		}
		return true
	}
	for _, l := range fx.hdrLines {
		if keep(l) {
			b.WriteString(l)
			b.WriteString("\n")
		}
	}
	for _, l := range fx.lines[:ob.Prefix] {
		if keep(l) {
			b.WriteString(l)
			b.WriteString("\n")
		}
	}
	fmt.Fprintf(&b, "(assert %s)\n", ob.PC)
	fmt.Fprintf(&b, "(assert (not %s))\n", ob.Goal)
	b.WriteString("(check-sat)\n(get-model)\n")
	out := b.String()
	// when nothing concatenates sequences, the concatenation/splitting axioms of the prelude are
	// useless and only feed the instantiation engine: leave them out (fewer hypotheses: sound)
	body := out
	if k := strings.Index(out, seqPreludeEnd); k >= 0 {
		body = out[k+len(seqPreludeEnd):]
	}
	if !strings.Contains(body, "bs_cat") && !strings.Contains(body, "bs_unit") {
		var kept []string
		for _, l := range strings.Split(out, "\n") {
			if strings.HasPrefix(l, "(assert (forall") && (strings.Contains(l, "bs_cat") || strings.Contains(l, "bs_unit")) && !strings.Contains(l, "inlang_") {
				continue
			}
			kept = append(kept, l)
		}
		out = strings.Join(kept, "\n")
	}
	return out
}

func mentionsAny(t string, markers []string) bool {
	for _, m := range markers {
		if strings.Contains(t, m) {
			return true
		}
	}
	return false
}

// seqMarkers lists the symbols whose presence means a term talks about ghost sequences.
func (p *Prog) seqMarkers() []string {
	p.rxMu.Lock()
	defer p.rxMu.Unlock()
	if p.markers != nil {
		return p.markers
	}
	m := []string{"bs_", "inlang_", "BSeq", "(hex2lower ", "(hex6upper ", "(utf8enc ", "(utf8dec "}
	for n, sf := range p.spec.Funcs {
		isSeq := sf.Ret == "seq"
		for _, pa := range sf.Params {
			if pa.Type == "seq" {
				isSeq = true
			}
		}
		if isSeq {
			m = append(m, "("+n+" ")
		}
	}
	// functions defined through sequence functions are found by their definitions mentioning a marker
	p.markers = m
	return m
}

// tainter computes, for a piece of SMT text, the "heavy" symbol families it depends on: ghost
// sequences ("seq") and each recursive spec function. Assumptions whose families are not all
// mentioned by the goal are left out of that goal's script (fewer hypotheses: sound), so that
// quantified sequence axioms and recursive definitions do not slow unrelated goals down.
type tainter struct {
	mu      sync.Mutex
	defs    map[string]string          // define-fun name -> body text
	memo    map[string]map[string]bool // name -> families
	rec     map[string]bool
	markers []string
	nameRe  *regexp.Regexp
}

var identRe = regexp.MustCompile(`[A-Za-z_][A-Za-z0-9_!.]*`)

func (fx *FuncCtx) tainter() *tainter {
	fx.taintOnce.Do(func() {
		t := &tainter{defs: map[string]string{}, memo: map[string]map[string]bool{}, rec: map[string]bool{}, markers: fx.prog.seqMarkers()}
		scan := func(l string) {
			if strings.HasPrefix(l, "(define-fun-rec ") {
				f := strings.Fields(l)
				t.rec[f[1]] = true
				t.defs[f[1]] = l
			} else if strings.HasPrefix(l, "(define-fun ") {
				f := strings.Fields(l)
				t.defs[f[1]] = l
			}
		}
		for _, l := range fx.hdrLines {
			scan(l)
		}
		for _, l := range fx.lines {
			scan(l)
		}
		fx.prog.rxMu.Lock()
		for n, body := range fx.prog.opaqueDefs {
			t.defs[n] = n + " " + body
		}
		fx.prog.rxMu.Unlock()
		fx.taint = t
	})
	return fx.taint
}

func (t *tainter) of(text string) map[string]bool {
	t.mu.Lock()
	defer t.mu.Unlock()
	return t.ofLocked(text, map[string]bool{})
}

func (t *tainter) ofLocked(text string, visiting map[string]bool) map[string]bool {
	out := map[string]bool{}
	if mentionsAny(text, t.markers) {
		out["seq"] = true
	}
	for _, id := range identRe.FindAllString(text, -1) {
		def, ok := t.defs[id]
		if !ok {
			continue
		}
		if t.rec[id] {
			out[id] = true
		}
		if m, ok := t.memo[id]; ok {
			for f := range m {
				out[f] = true
			}
			continue
		}
		if visiting[id] {
			continue
		}
		visiting[id] = true
		// the definition line starts with its own name; skip it to avoid trivial self-reference
		body := def
		if k := strings.Index(def, id); k >= 0 {
			body = def[k+len(id):]
		}
		m := t.ofLocked(body, visiting)
		if t.rec[id] {
			m[id] = true
		}
		t.memo[id] = m
		for f := range m {
			out[f] = true
		}
	}
	return out
}

// relationalFrame re-executes the body on a second set of parameters that agrees with the first
// only on the listed access paths, and asks for equal results (2-safety by self-composition).
func (fx *FuncCtx) relationalFrame(paths []string, first *Flow, info *types.Info) {
	if len(first.rets) == 0 {
		return
	}
	st2 := &State{pc: "true", env: map[types.Object]Val{}}
	for name, obj := range fx.params {
		v1 := fx.entry.env[obj]
		v2 := fx.fresh(obj.Type(), name+"_2")
		st2.env[obj] = fx.shareListed(name, v1, v2, paths)
	}
	for _, o := range fx.results {
		st2.env[o] = fx.zero(o.Type())
	}
	x2 := &Exec{fx: fx, info: info}
	flow2 := x2.block(fx.decl.Body.List, st2)
	if flow2.fall != nil {
		panic(unsupported{"relational frame needs explicit returns"})
	}
	// merge the returns of each run into one value
	merge := func(rs []*RetState) (Term, []Val) {
		pcs := []Term{}
		acc := rs[len(rs)-1].vals
		for i := len(rs) - 2; i >= 0; i-- {
			nv := make([]Val, len(acc))
			for k := range acc {
				nv[k] = fx.iteVal(rs[i].st.pc, rs[i].vals[k], acc[k])
			}
			acc = nv
		}
		for _, r := range rs {
			pcs = append(pcs, r.st.pc)
		}
		return sOr(pcs...), acc
	}
	pc1, v1 := merge(first.rets)
	pc2, v2 := merge(flow2.rets)
	ev := &Ev{fx: fx, st: &State{pc: "true"}, contract: true}
	var eqs []Term
	for k := range v1 {
		eqs = append(eqs, ev.sameVal(v1[k], v2[k], fx.decl))
	}
	lbl := "frame.dependsonly"
	ob := fx.oblige("frame", lbl, fx.decl.Pos(), sAnd(pc1, pc2), sAnd(eqs...), "the result depends only on: "+strings.Join(paths, ", "))
	if id := fx.con.Options["dependsonly-finding"]; id != "" {
		ob.FindingID = id
	}
}

// shareListed returns v2 with every listed access path (name, name.f, name.f.g) replaced by v1's.
func (fx *FuncCtx) shareListed(name string, v1, v2 Val, paths []string) Val {
	for _, p := range paths {
		if p == name {
			return v1
		}
	}
	s1, ok1 := v1.(VStruct)
	s2, ok2 := v2.(VStruct)
	if !ok1 || !ok2 {
		return v2
	}
	out := cloneStruct(s2)
	for _, f := range s1.Names {
		out.F[f] = fx.shareListed(name+"."+f, s1.F[f], s2.F[f], paths)
	}
	return out
}
