package main

// Heap dialect (pointers to structs, maps stored in fields) and interface values.

import (
	"fmt"
	"go/ast"
	"go/types"
	"strings"
)

// dynamic type tags of interface{} values seen by the sanitizers
const (
	tagOther = iota
	tagString
	tagHTML
	tagScript
	tagStyle
	tagStyleSheet
	tagURL
	tagTrustedResourceURL
	tagIdentifier
	tagURLSet
	tagNilIface
)

// names usable in contracts
var ghostTags = map[string]int{"tagOther": tagOther, "tagString": tagString, "tagHTML": tagHTML, "tagScript": tagScript, "tagStyle": tagStyle,
	"tagStyleSheet": tagStyleSheet, "tagURL": tagURL, "tagTrustedResourceURL": tagTrustedResourceURL, "tagIdentifier": tagIdentifier,
	"tagURLSet": tagURLSet, "tagNilIface": tagNilIface, "tagPtrBase": tagPtrBase}

// tagPtrBase + t is the tag of a non-nil pointer to a value of tag t (t in 1..9)
const tagPtrBase = 20

var safeTypeTags = map[string]int{
	"HTML": tagHTML, "Script": tagScript, "Style": tagStyle, "StyleSheet": tagStyleSheet, "URL": tagURL,
	"TrustedResourceURL": tagTrustedResourceURL, "Identifier": tagIdentifier, "URLSet": tagURLSet,
}

func isSafehtmlNamed(t types.Type) (string, bool) {
	n, ok := t.(*types.Named)
	if !ok || n.Obj().Pkg() == nil {
		return "", false
	}
	if n.Obj().Pkg().Path() != "github.com/google/safehtml" {
		return "", false
	}
	if _, ok := safeTypeTags[n.Obj().Name()]; ok {
		return n.Obj().Name(), true
	}
	return "", false
}

func (e *Ev) toIface(v Val, n ast.Node) VIface {
	switch x := v.(type) {
	case VIface:
		return x
	case VStr:
		return VIface{Tag: fmt.Sprintf("%d", tagString), S: x}
	case VStruct:
		if tg, ok := safeTypeTags[x.TName]; ok {
			if s, ok := x.F["str"].(VStr); ok {
				return VIface{Tag: fmt.Sprintf("%d", tg), S: s}
			}
		}
	case VNil:
		return VIface{Tag: fmt.Sprintf("%d", tagNilIface), S: e.fx.strLit("")}
	}
	// any other value: dynamic type "other", contents not modelled (only error messages use such arguments)
	return VIface{Tag: fmt.Sprintf("%d", tagOther), S: e.fx.strLit("")}
}

func (e *Ev) evTypeAssert(x *ast.TypeAssertExpr, commaOk bool) Val {
	v := e.ev(x.X)
	if rv, ok := v.(VRef); ok && strings.HasPrefix(rv.Elem, "iface:") {
		// a modelled interface value (parse.Node): the dynamic type is an uninterpreted function of the
		// reference; a successful assertion yields the same reference at the asserted type
		t := e.typeOf(x.Type)
		en, ok := elemName(t)
		if !ok {
			e.unsupp(x, "type assertion of a %s to %s", rv.Elem, t)
		}
		e.fx.specUsed["dyntype"] = true
		e.fx.trusted["interface values of text/template/parse.Node never hold a typed nil pointer; their dynamic type is a function of the reference (assumed)"] = true
		okT := sAnd(sNot(sEq(rv.T, "0")), sEq("(dyntype "+rv.T+")", fmt.Sprintf("%d", typeID(en))))
		val := VRef{rv.T, en}
		if commaOk {
			return VTuple{val, VBool{okT}}
		}
		e.safety("typeassert", "typeassert", x.Pos(), okT, "type assertion cannot fail")
		return val
	}
	iv, ok := v.(VIface)
	if !ok {
		e.unsupp(x, "type assertion on %T", v)
	}
	t := e.typeOf(x.Type)
	var tg int
	var val Val
	if b, ok := t.Underlying().(*types.Basic); ok && b.Kind() == types.String && types.Identical(t, types.Typ[types.String]) {
		tg, val = tagString, iv.S
	} else if name, ok := isSafehtmlNamed(t); ok {
		tg = safeTypeTags[name]
		val = VStruct{TName: name, Names: []string{"str"}, F: map[string]Val{"str": iv.S}}
	} else {
		e.unsupp(x, "type assertion to %s", t)
	}
	okT := sEq(iv.Tag, fmt.Sprintf("%d", tg))
	if commaOk {
		return VTuple{val, VBool{okT}}
	}
	e.safety("typeassert", "typeassert", x.Pos(), okT, "type assertion cannot fail")
	return val
}

// typeID gives a stable positive number to a struct type name (dynamic types of modelled interfaces).
func typeID(name string) int {
	h := 0
	for i := 0; i < len(name); i++ {
		h = (h*131 + int(name[i])) % 1000003
	}
	return h + 1
}

// VRangeTable is a package-level *unicode.RangeTable given by its ranges (stride 1).
type VRangeTable struct {
	Name   string
	Ranges [][2]int64
}

func (e *Ev) evModelledMethod(x *ast.CallExpr, sel *ast.SelectorExpr, fn *types.Func) (Val, bool) {
	// methods on package-level regexps
	if fn.Pkg() != nil && fn.Pkg().Path() == "regexp" {
		rv, ok := e.ev(sel.X).(VRegex)
		if !ok {
			e.unsupp(x, "regexp method on a non-table regexp")
		}
		return e.evRegexMethod(x, rv, fn.Name()), true
	}
	return nil, false
}

func (e *Ev) evRegexMethod(x *ast.CallExpr, rv VRegex, name string) Val {
	fx := e.fx
	fx.useSeq = true
	switch name {
	case "MatchString", "Match":
		s, ok := e.ev(x.Args[0]).(VStr)
		if !ok {
			e.unsupp(x, "MatchString of non-string")
		}
		ln := "re_" + rv.Var
		if !rv.Param {
			fx.prog.registerCodeRegex(ln, rv.Pattern)
		}
		fx.langsUsed[ln] = true
		fx.trusted["regexp.MatchString(s) <=> dec(s) in L(pattern) (assumed; L computed from regexp/syntax of the real pattern, DESIGN 2.5)"] = true
		return VBool{"(inlang_" + ln + " " + fx.seqOf(s) + ")"}
	}
	if name == "ReplaceAllStringFunc" {
		return e.evReplaceFunc(x, rv)
	}
	if name == "ReplaceAllString" {
		s, ok := e.ev(x.Args[0]).(VStr)
		rep, ok2 := e.ev(x.Args[1]).(VStr)
		if !ok || !ok2 || rep.Lit == nil || *rep.Lit != "" {
			e.unsupp(x, "ReplaceAllString is only modelled with the empty replacement")
		}
		fx.prog.registerCodeRegex("re_"+rv.Var, rv.Pattern)
		fx.specUsed["rm_"+rv.Var] = true
		fx.prog.declareRemoval(rv.Var)
		r := fx.freshStr("removed")
		fx.assume(e.st.pc, sEq(fx.seqOf(r), "(rm_"+rv.Var+" "+fx.seqOf(s)+")"))
		fx.trusted["regexp.ReplaceAllString(s, \"\") with pattern "+rv.Var+": named rm_"+rv.Var+"(s); characterised by the 'removal' directive (bounded stand-in)"] = true
		return r
	}
	if name == "FindStringSubmatch" {
		s, ok := e.ev(x.Args[0]).(VStr)
		if !ok {
			e.unsupp(x, "FindStringSubmatch of non-string")
		}
		ln := "re_" + rv.Var
		fx.prog.registerCodeRegex(ln, rv.Pattern)
		fx.langsUsed[ln] = true
		nsub, err := numSubexp(rv.Pattern)
		if err != nil {
			e.unsupp(x, "pattern of %s does not parse: %v", rv.Var, err)
		}
		fx.trusted["regexp.FindStringSubmatch(s): nil iff no match, else a slice of 1+NumSubexp strings (assumed)"] = true
		seq := fx.seqOf(s)
		return VSubmatch{Var: rv.Var, In: seq, Hit: "(inlang_" + ln + " " + seq + ")", N: 1 + nsub}
	}
	e.unsupp(x, "regexp method %s is not modelled", name)
	return nil
}

// VStrMap is a map[string]string parameter: uninterpreted functions of the key contents.
type VStrMap struct{ ID string }

func (e *Ev) strMapLookup(m VStrMap, key Val, commaOk bool, n ast.Node) Val {
	k, ok := key.(VStr)
	if !ok {
		e.unsupp(n, "map key must be a string")
	}
	fx := e.fx
	fx.useSeq = true
	fx.specUsed["strmap_"+m.ID] = true
	fx.prog.declareStrMap(m.ID)
	ks := fx.seqOf(k)
	has := "(maphas_" + m.ID + " " + ks + ")"
	o := fx.name(sortInt, "mo", "(mapo_"+m.ID+" "+ks+")")
	l := fx.name(sortInt, "ml", "(mapl_"+m.ID+" "+ks+")")
	v := VStr{B: "(mapb_" + m.ID + " " + ks + ")", O: o, L: l}
	if !e.contract {
		fx.emit(fmt.Sprintf("(assert (and (<= 0 %s) (<= 0 %s) (< %s %s) (< %s %s) (=> (not %s) (= %s 0))))", o, l, l, maxLen, o, maxLen, has, l))
	} else {
		v = VStr{B: "(mapb_" + m.ID + " " + ks + ")", O: "(mapo_" + m.ID + " " + ks + ")", L: "(mapl_" + m.ID + " " + ks + ")"}
	}
	if commaOk {
		return VTuple{v, VBool{has}}
	}
	return v
}

func (p *Prog) declareStrMap(id string) {
	p.rxMu.Lock()
	defer p.rxMu.Unlock()
	name := "strmap_" + id
	if _, ok := p.spec.Funcs[name]; ok {
		return
	}
	def := fmt.Sprintf("(declare-fun maphas_%s (BSeq) Bool)\n(declare-fun mapb_%s (BSeq) (Array Int Int))\n(declare-fun mapo_%s (BSeq) Int)\n(declare-fun mapl_%s (BSeq) Int)", id, id, id, id)
	p.spec.Funcs[name] = &SpecFunc{Name: name, Ret: "bool", Prerendered: def}
	p.spec.FuncOrder = append(p.spec.FuncOrder, name)
}

// evReplaceFunc models re.ReplaceAllStringFunc(src, func(match string) string {...}): the function
// literal is verified against the contract's "closure N" block for one call with an arbitrary match
// of the pattern and arbitrary values of the captured variables it assigns (any number of earlier
// calls); the result of the whole call is an unknown string and those variables are unknown after it.
// Assumed higher-order contract: f is called once per non-overlapping match, left to right, and the
// results are spliced between the unmatched parts of src.
func (e *Ev) evReplaceFunc(x *ast.CallExpr, rv VRegex) Val {
	fx := e.fx
	lit, ok := unparen(x.Args[1]).(*ast.FuncLit)
	if !ok {
		e.unsupp(x, "ReplaceAllStringFunc needs a function literal")
	}
	fx.nclosure++
	ord := fx.nclosure
	var cc *Contract
	if fx.con != nil {
		cc = fx.con.Closures[ord]
	}
	if cc == nil {
		e.unsupp(x, "function literal %d has no closure contract", ord)
	}
	fx.trusted["regexp.ReplaceAllStringFunc calls the function once per non-overlapping match, left to right, and splices its results between the unmatched text (assumed higher-order contract)"] = true
	e.ev(x.Args[0])
	ln := "re_" + rv.Var
	fx.prog.registerCodeRegex(ln, rv.Pattern)
	fx.langsUsed[ln] = true
	sig := e.info.TypeOf(lit).(*types.Signature)
	if sig.Params().Len() != 1 || len(cc.Params) != 1 {
		e.unsupp(x, "closure must take the match")
	}
	// captured variables assigned inside the literal
	ex := &Exec{fx: fx, info: e.info, sig: sig}
	mods := ex.modified([]ast.Node{lit.Body}, e.st)
	pre := e.st.clone()
	pre.pc = fx.name(sortBool, "pc", e.st.pc)
	for _, o := range mods {
		pre.env[o] = fx.havocLike(pre.env[o], o)
	}
	// the match
	pobj := e.info.Defs[lit.Type.Params.List[0].Names[0]]
	match := fx.freshStr("match")
	fx.assume(pre.pc, "(inlang_"+ln+" "+fx.seqOf(match)+")")
	if ml, ok := fx.prog.minLen(ln); ok {
		fx.assume(pre.pc, sLe(fmt.Sprintf("%d", ml), match.L))
		fx.trusted[fmt.Sprintf("every match of %s has at least %d bytes (shortest word of its automaton)", rv.Var, ml)] = true
	}
	call := pre.clone()
	call.env[pobj] = match
	clEv := func(st *State, results []Val) *Ev {
		ce := fx.clauseEv(st, lit.Body.Lbrace+1, nil)
		inner := ce.lookup
		ce.lookup = func(name string) (Val, bool) {
			if name == cc.Params[0] {
				return match, true
			}
			if len(cc.Results) == 1 && name == cc.Results[0] && results != nil {
				return results[0], true
			}
			return inner(name)
		}
		ce.beforeEv = fx.clauseEv(pre, lit.Body.Lbrace+1, nil)
		return ce
	}
	for _, rq := range cc.Requires {
		ce := clEv(call, nil)
		fx.assume(call.pc, ce.boolOf(ce.ev(rq.Expr), rq.Expr))
	}
	flow := ex.block(lit.Body.List, call)
	for _, r := range flow.rets {
		for i, en := range cc.Ensures {
			lbl := en.Label
			if lbl == "" {
				lbl = fmt.Sprintf("ensures%d", i+1)
			}
			ce := clEv(r.st, r.vals)
			t := ce.boolOf(ce.ev(en.Expr), en.Expr)
			fx.obligeSplit("post", fmt.Sprintf("closure%d.post.%s@ret%d", ord, lbl, r.ord), r.pos, r.st.pc, t, "closure postcondition: "+en.Text)
		}
	}
	// after the whole call: assigned captured variables are unknown
	for _, o := range mods {
		e.st.env[o] = fx.havocLike(e.st.env[o], o)
	}
	return fx.freshStr("replaced")
}

// verifyClosure checks the body of a function literal against its "closure N" block: parameters are
// arbitrary values (constrained by the block's requires), captured variables have the values they
// have where the literal is written (literals that assign captured variables are refused), every
// return must satisfy the block's ensures. Callers of the function value learn nothing from this:
// the value is passed on as an opaque function.
func (e *Ev) verifyClosure(lit *ast.FuncLit, cc *Contract, ord int) {
	fx := e.fx
	sig := e.info.TypeOf(lit).(*types.Signature)
	ex := &Exec{fx: fx, info: e.info, sig: sig}
	if mods := ex.modified([]ast.Node{lit.Body}, e.st); len(mods) > 0 {
		e.unsupp(lit, "function literal %d assigns captured variables", ord)
	}
	call := e.st.clone()
	call.pc = fx.name(sortBool, "pc", e.st.pc)
	var pnames []string
	pvals := map[string]Val{}
	for _, f := range lit.Type.Params.List {
		for _, id := range f.Names {
			obj := e.info.Defs[id]
			v := fx.fresh(obj.Type(), "cl_"+id.Name)
			for _, rt := range refTermsOf(v) {
				fx.emit("(assert (<= " + rt + " " + fx.allocTerm(call) + "))")
			}
			call.env[obj] = v
			pnames = append(pnames, id.Name)
			pvals[id.Name] = v
		}
	}
	if len(pnames) != len(cc.Params) {
		panic(contractDrift{fmt.Sprintf("closure %d of %s: the contract lists %d parameters, the code has %d", ord, fx.key, len(cc.Params), len(pnames))})
	}
	for i := range pnames {
		if pnames[i] != cc.Params[i] {
			panic(contractDrift{fmt.Sprintf("closure %d of %s: the contract names parameter %d %q, the code %q", ord, fx.key, i+1, cc.Params[i], pnames[i])})
		}
	}
	clEv := func(st *State, results []Val) *Ev {
		ce := fx.clauseEv(st, lit.Body.Lbrace+1, nil)
		inner := ce.lookup
		ce.lookup = func(name string) (Val, bool) {
			if v, ok := pvals[name]; ok {
				return v, true
			}
			for i, rn := range cc.Results {
				if rn == name && results != nil && i < len(results) {
					return results[i], true
				}
			}
			return inner(name)
		}
		return ce
	}
	for _, rq := range cc.Requires {
		ce := clEv(call, nil)
		fx.assume(call.pc, ce.boolOf(ce.ev(rq.Expr), rq.Expr))
	}
	flow := ex.block(lit.Body.List, call)
	for _, r := range flow.rets {
		for i, en := range cc.Ensures {
			lbl := en.Label
			if lbl == "" {
				lbl = fmt.Sprintf("ensures%d", i+1)
			}
			ce := clEv(r.st, r.vals)
			t := ce.boolOf(ce.ev(en.Expr), en.Expr)
			fx.obligeSplit("post", fmt.Sprintf("closure%d.post.%s@ret%d", ord, lbl, r.ord), r.pos, r.st.pc, t, "closure postcondition: "+en.Text)
		}
	}
}
