package main

// P2: regular-language engine. Regexes (from the code or from the spec) are compiled with
// regexp/syntax (the front end Go's matcher uses), determinised over an alphabet of rune
// classes computed by running the real Inst.MatchRune on every code point, and combined.
// Lemmas are decided by an SMT-checked inductive certificate over the product automaton.

import (
	"fmt"
	"go/ast"
	"go/parser"
	"go/token"
	"go/types"
	"regexp/syntax"
	"sort"
	"strconv"
	"strings"
	"unicode"
)

type LangDef struct {
	Name string
	Text string
	Expr ast.Expr
	File string
	Line int
	Code bool // auto-registered from a code regex
}

type LemmaDef struct {
	Name                             string
	Kind                             string // subset, disjoint, equal, nonempty
	Args                             []ast.Expr
	Text                             string
	Serves                           []string
	File                             string
	Line                             int
	Known                            string // id of a known finding whose region is excluded in the statement
	ReplayPkg, ReplayKind, ReplayArg string
	Finding                          string   // id of the known finding this lemma is expected to be refuted by
	Also                             []string // further concrete inputs to try on the real code when the lemma fails
}

func parseLangDef(text, file string, line int) (*LangDef, error) {
	i := strings.Index(text, "=")
	if i < 0 {
		return nil, fmt.Errorf("%s:%d: lang NAME = EXPR expected", file, line)
	}
	name := strings.TrimSpace(text[:i])
	body := strings.TrimSpace(text[i+1:])
	e, err := parser.ParseExpr(body)
	if err != nil {
		return nil, fmt.Errorf("%s:%d: %v", file, line, err)
	}
	return &LangDef{Name: name, Text: body, Expr: e, File: file, Line: line}, nil
}

func parseLemmaDef(text, file string, line int) (*LemmaDef, error) {
	m := labelRe.FindStringSubmatch(text)
	if m == nil {
		return nil, fmt.Errorf("%s:%d: lemma NAME: STATEMENT expected", file, line)
	}
	lm := &LemmaDef{Name: m[1], Text: m[2], File: file, Line: line}
	body := m[2]
	// trailing "finding ID": the lemma states the property in full and is expected to be refuted
	if k := strings.Index(body, " finding "); k >= 0 {
		f := strings.Fields(body[k+9:])
		if len(f) >= 1 {
			lm.Finding = f[0]
		}
		body = strings.TrimSpace(body[:k] + " " + strings.Join(f[1:], " "))
	}
	// trailing `also "input" "input"...`
	if k := strings.Index(body, " also "); k >= 0 {
		rest := strings.TrimSpace(body[k+6:])
		for len(rest) > 0 && rest[0] == '"' {
			q, err := strconv.QuotedPrefix(rest)
			if err != nil {
				break
			}
			u, _ := strconv.Unquote(q)
			lm.Also = append(lm.Also, u)
			rest = strings.TrimSpace(rest[len(q):])
		}
		body = strings.TrimSpace(body[:k])
	}
	// trailing "replay PKG KIND ARG": how to run a counterexample string on the real code
	if k := strings.Index(body, " replay "); k >= 0 {
		f := strings.Fields(body[k+8:])
		if len(f) == 3 {
			lm.ReplayPkg, lm.ReplayKind, lm.ReplayArg = f[0], f[1], f[2]
		}
		body = strings.TrimSpace(body[:k])
	}
	// trailing "serves C11 C02"
	if k := strings.Index(body, " serves "); k >= 0 {
		lm.Serves = strings.Fields(body[k+8:])
		body = strings.TrimSpace(body[:k])
	}
	e, err := parser.ParseExpr(body)
	if err != nil {
		return nil, fmt.Errorf("%s:%d: %v", file, line, err)
	}
	call, ok := e.(*ast.CallExpr)
	if !ok {
		return nil, fmt.Errorf("%s:%d: lemma statement must be subset(A,B), disjoint(A,B), equal(A,B) or nonempty(A)", file, line)
	}
	lm.Kind = call.Fun.(*ast.Ident).Name
	lm.Args = call.Args
	return lm, nil
}

func (p *Prog) registerCodeRegex(name, pattern string) {
	p.rxMu.Lock()
	defer p.rxMu.Unlock()
	p.codeRegex[name] = pattern
	if _, ok := p.spec.Langs[name]; !ok {
		p.spec.Langs[name] = &LangDef{Name: name, Text: "code:" + pattern, Code: true}
	}
}

// ---------------------------------------------------------------------------
// alphabet

type leafRegex struct {
	pattern string
	prog    *syntax.Prog
	runeIns []int // indices of rune-consuming instructions
}

func compileLeaf(pattern string) (*leafRegex, error) {
	re, err := syntax.Parse(pattern, syntax.Perl)
	if err != nil {
		return nil, err
	}
	prog, err := syntax.Compile(re.Simplify())
	if err != nil {
		return nil, err
	}
	l := &leafRegex{pattern: pattern, prog: prog}
	for i, in := range prog.Inst {
		switch in.Op {
		case syntax.InstRune, syntax.InstRune1, syntax.InstRuneAny, syntax.InstRuneAnyNotNL:
			l.runeIns = append(l.runeIns, i)
		case syntax.InstEmptyWidth:
			if syntax.EmptyOp(in.Arg)&(syntax.EmptyWordBoundary|syntax.EmptyNoWordBoundary) != 0 {
				return nil, fmt.Errorf("word boundaries are not supported in %q", pattern)
			}
		}
	}
	return l, nil
}

type Alphabet struct {
	reps    []rune // representative of each class
	bounds  []rune // sorted interval starts
	classAt []int  // class of the interval starting at bounds[i]
	lower   []int  // class of ToLower(rep)
	nlClass int
	surr    int // class of the surrogate code points, which never occur in decoded text
}

func (a *Alphabet) classOf(r rune) int {
	i := sort.Search(len(a.bounds), func(i int) bool { return a.bounds[i] > r }) - 1
	return a.classAt[i]
}

// buildAlphabet partitions all code points by the behaviour of every rune instruction of the
// leaves, on the rune itself and on its lower-case image.
func buildAlphabet(leaves []*leafRegex, extraSingles []rune, needLower bool) *Alphabet {
	type instRef struct {
		in *syntax.Inst
	}
	var ins []instRef
	for _, l := range leaves {
		for _, i := range l.runeIns {
			ins = append(ins, instRef{&l.prog.Inst[i]})
		}
	}
	sigOf := func(r rune) string {
		var b strings.Builder
		for _, ir := range ins {
			if ir.in.MatchRune(r) {
				b.WriteByte('1')
			} else {
				b.WriteByte('0')
			}
		}
		return b.String()
	}
	single := map[rune]bool{'\n': true}
	for _, r := range extraSingles {
		single[r] = true
	}
	a := &Alphabet{}
	sigClass := map[string]int{}
	prev := ""
	first := true
	for r := rune(0); r <= unicode.MaxRune; r++ {
		s := sigOf(r)
		if needLower {
			lr := unicode.ToLower(r)
			if lr != r {
				s += "|" + sigOf(lr) + "|L"
			} else {
				s += "|" + s + "|"
			}
		}
		if single[r] {
			s += fmt.Sprintf("#%d", r)
		}
		if r >= 0xD800 && r <= 0xDFFF {
			s = "#surrogate"
		}
		if first || s != prev {
			c, ok := sigClass[s]
			if !ok {
				c = len(a.reps)
				sigClass[s] = c
				a.reps = append(a.reps, r)
			}
			a.bounds = append(a.bounds, r)
			a.classAt = append(a.classAt, c)
			prev = s
			first = false
		}
	}
	if needLower {
		// class of the lower-case image; the signature guarantees it is uniform per class
		a.lower = make([]int, len(a.reps))
		for c, r := range a.reps {
			a.lower[c] = a.classOf(unicode.ToLower(r))
		}
	}
	a.nlClass = a.classOf('\n')
	a.surr = a.classOf(0xD800)
	return a
}

// ---------------------------------------------------------------------------
// DFA

type DFA struct {
	init  int
	acc   []bool
	delta [][]int32 // state x class
}

func (d *DFA) n() int { return len(d.acc) }

// leafDFA determinises "MatchString(pattern, s)" over the alphabet.
func leafDFA(l *leafRegex, a *Alphabet) *DFA {
	prog := l.prog
	type key string
	// a DFA state: sorted set of pending pcs + flags (first, prevNL) ; special sink "matched"
	type dstate struct {
		pcs    []uint32
		first  bool
		prevNL bool
	}
	enc := func(s dstate) key {
		var b strings.Builder
		if s.first {
			b.WriteByte('F')
		}
		if s.prevNL {
			b.WriteByte('N')
		}
		for _, pc := range s.pcs {
			b.WriteString(strconv.Itoa(int(pc)))
			b.WriteByte(',')
		}
		return key(b.String())
	}
	// closure follows Alt/Nop/Capture/EmptyWidth given context; returns rune-inst pcs and whether Match reached
	closure := func(pcs []uint32, first, prevNL, atEnd bool, nextNL bool) ([]uint32, bool) {
		seen := map[uint32]bool{}
		var out []uint32
		matched := false
		var stack []uint32
		stack = append(stack, pcs...)
		for len(stack) > 0 {
			pc := stack[len(stack)-1]
			stack = stack[:len(stack)-1]
			if seen[pc] {
				continue
			}
			seen[pc] = true
			in := &prog.Inst[pc]
			switch in.Op {
			case syntax.InstAlt, syntax.InstAltMatch:
				stack = append(stack, in.Out, in.Arg)
			case syntax.InstNop, syntax.InstCapture:
				stack = append(stack, in.Out)
			case syntax.InstEmptyWidth:
				op := syntax.EmptyOp(in.Arg)
				ok := true
				if op&syntax.EmptyBeginText != 0 && !first {
					ok = false
				}
				if op&syntax.EmptyBeginLine != 0 && !(first || prevNL) {
					ok = false
				}
				if op&syntax.EmptyEndText != 0 && !atEnd {
					ok = false
				}
				if op&syntax.EmptyEndLine != 0 && !(atEnd || nextNL) {
					ok = false
				}
				if ok {
					stack = append(stack, in.Out)
				}
			case syntax.InstMatch:
				matched = true
			case syntax.InstFail:
			default:
				out = append(out, pc)
			}
		}
		sort.Slice(out, func(i, j int) bool { return out[i] < out[j] })
		return out, matched
	}
	d := &DFA{}
	index := map[key]int{}
	var states []dstate
	add := func(s dstate) int {
		k := enc(s)
		if i, ok := index[k]; ok {
			return i
		}
		i := len(states)
		index[k] = i
		states = append(states, s)
		d.acc = append(d.acc, false)
		d.delta = append(d.delta, make([]int32, len(a.reps)))
		return i
	}
	const sinkKey = key("MATCHED")
	sink := -1
	getSink := func() int {
		if sink >= 0 {
			return sink
		}
		sink = len(states)
		index[sinkKey] = sink
		states = append(states, dstate{})
		d.acc = append(d.acc, true)
		row := make([]int32, len(a.reps))
		for c := range row {
			row[c] = int32(sink)
		}
		d.delta = append(d.delta, row)
		return sink
	}
	start := uint32(prog.Start)
	d.init = add(dstate{pcs: []uint32{start}, first: true})
	for i := 0; i < len(states); i++ {
		if i == sink {
			continue
		}
		s := states[i]
		// acceptance at end of text
		_, m := closure(s.pcs, s.first, s.prevNL, true, false)
		d.acc[i] = m
		for c, rep := range a.reps {
			isNL := c == a.nlClass && rep == '\n'
			runePcs, matched := closure(s.pcs, s.first, s.prevNL, false, isNL)
			if matched {
				d.delta[i][c] = int32(getSink())
				continue
			}
			var next []uint32
			for _, pc := range runePcs {
				in := &prog.Inst[pc]
				if in.MatchRune(rep) {
					next = append(next, in.Out)
				}
			}
			// unanchored search: a new attempt may start at the next position
			next = append(next, start)
			sort.Slice(next, func(x, y int) bool { return next[x] < next[y] })
			next = dedupU32(next)
			d.delta[i][c] = int32(add(dstate{pcs: next, prevNL: isNL}))
		}
	}
	return minimize(d)
}

func dedupU32(xs []uint32) []uint32 {
	out := xs[:0]
	for i, x := range xs {
		if i == 0 || x != xs[i-1] {
			out = append(out, x)
		}
	}
	return out
}

// minimize: Moore partition refinement (keeps DFAs small for the certificates).
func minimize(d *DFA) *DFA {
	n := d.n()
	k := len(d.delta[0])
	// remove unreachable
	reach := make([]bool, n)
	stack := []int{d.init}
	reach[d.init] = true
	for len(stack) > 0 {
		q := stack[len(stack)-1]
		stack = stack[:len(stack)-1]
		for c := 0; c < k; c++ {
			t := int(d.delta[q][c])
			if !reach[t] {
				reach[t] = true
				stack = append(stack, t)
			}
		}
	}
	part := make([]int, n)
	for q := 0; q < n; q++ {
		if d.acc[q] {
			part[q] = 1
		}
	}
	for {
		sig := map[string]int{}
		np := make([]int, n)
		for q := 0; q < n; q++ {
			if !reach[q] {
				continue
			}
			var b strings.Builder
			b.WriteString(strconv.Itoa(part[q]))
			for c := 0; c < k; c++ {
				b.WriteByte(',')
				b.WriteString(strconv.Itoa(part[d.delta[q][c]]))
			}
			s := b.String()
			id, ok := sig[s]
			if !ok {
				id = len(sig)
				sig[s] = id
			}
			np[q] = id
		}
		same := true
		cnt := map[int]bool{}
		for q := 0; q < n; q++ {
			if reach[q] {
				cnt[part[q]] = true
			}
		}
		if len(sig) != len(cnt) {
			same = false
		}
		part = np
		if same {
			break
		}
	}
	m := 0
	for q := 0; q < n; q++ {
		if reach[q] && part[q]+1 > m {
			m = part[q] + 1
		}
	}
	out := &DFA{init: part[d.init], acc: make([]bool, m), delta: make([][]int32, m)}
	for q := 0; q < n; q++ {
		if !reach[q] {
			continue
		}
		pq := part[q]
		if out.delta[pq] != nil {
			continue
		}
		out.acc[pq] = d.acc[q]
		out.delta[pq] = make([]int32, k)
		for c := 0; c < k; c++ {
			out.delta[pq][c] = int32(part[d.delta[q][c]])
		}
	}
	return out
}

func complement(d *DFA) *DFA {
	o := &DFA{init: d.init, acc: make([]bool, d.n()), delta: d.delta}
	for i, a := range d.acc {
		o.acc[i] = !a
	}
	return o
}

func product(a, b *DFA, f func(x, y bool) bool) *DFA {
	k := len(a.delta[0])
	type pair struct{ x, y int }
	idx := map[pair]int{}
	var ps []pair
	add := func(p pair) int {
		if i, ok := idx[p]; ok {
			return i
		}
		idx[p] = len(ps)
		ps = append(ps, p)
		return len(ps) - 1
	}
	d := &DFA{}
	d.init = add(pair{a.init, b.init})
	for i := 0; i < len(ps); i++ {
		p := ps[i]
		d.acc = append(d.acc, f(a.acc[p.x], b.acc[p.y]))
		row := make([]int32, k)
		for c := 0; c < k; c++ {
			row[c] = int32(add(pair{int(a.delta[p.x][c]), int(b.delta[p.y][c])}))
		}
		d.delta = append(d.delta, row)
	}
	return minimize(d)
}

// concatDFA: L(a)·L(b) by subset construction over (state of a, set of states of b).
func concatDFA(a, b *DFA) *DFA {
	k := len(a.delta[0])
	type st struct {
		x  int
		ys string
	}
	encSet := func(s []int) string {
		sort.Ints(s)
		var bld strings.Builder
		last := -1
		for _, v := range s {
			if v != last {
				bld.WriteString(strconv.Itoa(v))
				bld.WriteByte(',')
				last = v
			}
		}
		return bld.String()
	}
	decSet := func(s string) []int {
		var out []int
		for _, f := range strings.Split(s, ",") {
			if f != "" {
				v, _ := strconv.Atoi(f)
				out = append(out, v)
			}
		}
		return out
	}
	idx := map[st]int{}
	var ss []st
	add := func(x int, ys []int) int {
		if a.acc[x] {
			ys = append(ys, b.init)
		}
		s := st{x, encSet(ys)}
		if i, ok := idx[s]; ok {
			return i
		}
		idx[s] = len(ss)
		ss = append(ss, s)
		return len(ss) - 1
	}
	d := &DFA{}
	d.init = add(a.init, nil)
	for i := 0; i < len(ss); i++ {
		s := ss[i]
		ys := decSet(s.ys)
		acc := false
		for _, y := range ys {
			if b.acc[y] {
				acc = true
			}
		}
		d.acc = append(d.acc, acc)
		row := make([]int32, k)
		for c := 0; c < k; c++ {
			var ny []int
			for _, y := range ys {
				ny = append(ny, int(b.delta[y][c]))
			}
			row[c] = int32(add(int(a.delta[s.x][c]), ny))
		}
		d.delta = append(d.delta, row)
	}
	return minimize(d)
}

// plusDFA accepts the concatenations of one or more strings of L(a).
func plusDFA(a *DFA) *DFA {
	k := len(a.delta[0])
	enc := func(s []int) (string, []int) {
		sort.Ints(s)
		var out []int
		var bld strings.Builder
		last := -1
		for _, v := range s {
			if v != last {
				out = append(out, v)
				bld.WriteString(strconv.Itoa(v))
				bld.WriteByte(',')
				last = v
			}
		}
		return bld.String(), out
	}
	idx := map[string]int{}
	var sets [][]int
	add := func(s []int) int {
		// after a complete string of L the next one may begin
		for _, q := range s {
			if a.acc[q] {
				s = append(s, a.init)
				break
			}
		}
		key, set := enc(s)
		if i, ok := idx[key]; ok {
			return i
		}
		idx[key] = len(sets)
		sets = append(sets, set)
		return len(sets) - 1
	}
	d := &DFA{}
	d.init = add([]int{a.init})
	for i := 0; i < len(sets); i++ {
		acc := false
		for _, q := range sets[i] {
			if a.acc[q] {
				acc = true
			}
		}
		d.acc = append(d.acc, acc)
		row := make([]int32, k)
		for c := 0; c < k; c++ {
			var nq []int
			for _, q := range sets[i] {
				nq = append(nq, int(a.delta[q][c]))
			}
			row[c] = int32(add(nq))
		}
		d.delta = append(d.delta, row)
	}
	return minimize(d)
}

// epsilonDFA accepts the empty string only.
func epsilonDFA(k int) *DFA {
	sink := make([]int32, k)
	first := make([]int32, k)
	for c := range first {
		first[c], sink[c] = 1, 1
	}
	return &DFA{init: 0, acc: []bool{true, false}, delta: [][]int32{first, sink}}
}

// prefixesDFA accepts every prefix of a string of L(a).
func prefixesDFA(a *DFA) *DFA {
	n := a.n()
	k := len(a.delta[0])
	can := make([]bool, n)
	copy(can, a.acc)
	for changed := true; changed; {
		changed = false
		for q := 0; q < n; q++ {
			if can[q] {
				continue
			}
			for c := 0; c < k; c++ {
				if can[a.delta[q][c]] {
					can[q] = true
					changed = true
					break
				}
			}
		}
	}
	return minimize(&DFA{init: a.init, acc: can, delta: a.delta})
}

// lowerPreimage accepts s iff ToLower(s) (rune-wise) is accepted by a.
func lowerPreimage(a *DFA, al *Alphabet) *DFA {
	d := &DFA{init: a.init, acc: a.acc, delta: make([][]int32, a.n())}
	for q := range a.delta {
		row := make([]int32, len(a.delta[q]))
		for c := range row {
			row[c] = a.delta[q][al.lower[c]]
		}
		d.delta[q] = row
	}
	return minimize(d)
}

// shortest returns a shortest accepted string as class indices, or nil,false if the language is empty.
func (d *DFA) shortest() ([]int, bool) {
	n := d.n()
	prev := make([]int, n)
	pc := make([]int, n)
	for i := range prev {
		prev[i] = -2
	}
	prev[d.init] = -1
	q := []int{d.init}
	for len(q) > 0 {
		s := q[0]
		q = q[1:]
		if d.acc[s] {
			var out []int
			for t := s; prev[t] != -1; t = prev[t] {
				out = append([]int{pc[t]}, out...)
			}
			return out, true
		}
		for c, t := range d.delta[s] {
			if prev[t] == -2 {
				prev[t] = s
				pc[t] = c
				q = append(q, int(t))
			}
		}
	}
	return nil, false
}

// ---------------------------------------------------------------------------
// language expressions

type langEnv struct {
	p      *Prog
	al     *Alphabet
	leaves map[string]*leafRegex
	cache  map[string]*DFA
	stack  map[string]bool
}

// collectLeaves gathers the regex patterns an expression depends on.
func (p *Prog) collectLeaves(e ast.Expr, out map[string]bool, needLower *bool, seen map[string]bool) error {
	switch x := e.(type) {
	case *ast.Ident:
		if seen[x.Name] {
			return nil
		}
		seen[x.Name] = true
		p.ensureAnyOf(x.Name)
		ld, ok := p.spec.Langs[x.Name]
		if !ok {
			// a code regex not yet registered: re_<var>
			if strings.HasPrefix(x.Name, "re_") {
				pat, err := p.codeRegexPattern(strings.TrimPrefix(x.Name, "re_"))
				if err != nil {
					return err
				}
				p.registerCodeRegex(x.Name, pat)
				out[pat] = true
				return nil
			}
			return fmt.Errorf("unknown language %s", x.Name)
		}
		if ld.Code {
			out[p.codeRegex[x.Name]] = true
			return nil
		}
		return p.collectLeaves(ld.Expr, out, needLower, seen)
	case *ast.CallExpr:
		fn := x.Fun.(*ast.Ident).Name
		switch fn {
		case "regex":
			s, err := litString(x.Args[0])
			if err != nil {
				return err
			}
			out[s] = true
			return nil
		case "lit":
			s, err := litString(x.Args[0])
			if err != nil {
				return err
			}
			out["^(?s:"+regexpQuote(s)+")$"] = true
			return nil
		case "whole":
			// whole(re_var): the strings the code's regexp matches from the first to the last byte
			pat, err := p.wholePattern(x)
			if err != nil {
				return err
			}
			out[pat] = true
			return nil
		case "lowerpre":
			*needLower = true
		case "lquot", "rquot":
			// quotient of a language by an ASCII literal: lquot(L, "w") = { s : w s in L },
			// rquot(L, "w") = { s : s w in L }
			if len(x.Args) != 2 {
				return fmt.Errorf("%s needs a language and a literal", fn)
			}
			if w, err := litString(x.Args[1]); err != nil || !isASCII(w) || w == "" {
				return fmt.Errorf("%s needs a non-empty ASCII literal", fn)
			}
			return p.collectLeaves(x.Args[0], out, needLower, seen)
		}
		for _, a := range x.Args {
			if err := p.collectLeaves(a, out, needLower, seen); err != nil {
				return err
			}
		}
		return nil
	case *ast.ParenExpr:
		return p.collectLeaves(x.X, out, needLower, seen)
	}
	return fmt.Errorf("bad language expression")
}

// wholePattern: the anchored form of a regexp variable of the code, for whole(re_var).
func (p *Prog) wholePattern(x *ast.CallExpr) (string, error) {
	if len(x.Args) != 1 {
		return "", fmt.Errorf("whole needs one code regexp (re_<var>)")
	}
	id, ok := x.Args[0].(*ast.Ident)
	if !ok || !strings.HasPrefix(id.Name, "re_") {
		return "", fmt.Errorf("whole needs a code regexp (re_<var>)")
	}
	pat, err := p.codeRegexPattern(strings.TrimPrefix(id.Name, "re_"))
	if err != nil {
		return "", err
	}
	return "^(?:" + pat + ")$", nil
}

func isASCII(s string) bool {
	for i := 0; i < len(s); i++ {
		if s[i] >= 0x80 {
			return false
		}
	}
	return true
}

// leftQuotient: { s : w s in L(d) }: the same automaton started after reading w.
func leftQuotient(d *DFA, w string, al *Alphabet) *DFA {
	q := d.init
	for _, r := range w {
		q = int(d.delta[q][al.classOf(r)])
	}
	return &DFA{init: q, acc: d.acc, delta: d.delta}
}

// rightQuotient: { s : s w in L(d) }: a state accepts when reading w from it ends in acceptance.
func rightQuotient(d *DFA, w string, al *Alphabet) *DFA {
	acc := make([]bool, len(d.acc))
	for q := range d.acc {
		t := q
		for _, r := range w {
			t = int(d.delta[t][al.classOf(r)])
		}
		acc[q] = d.acc[t]
	}
	return &DFA{init: d.init, acc: acc, delta: d.delta}
}

func regexpQuote(s string) string {
	var b strings.Builder
	for _, r := range s {
		if r < 0x80 && !(r >= 'a' && r <= 'z' || r >= 'A' && r <= 'Z' || r >= '0' && r <= '9') {
			fmt.Fprintf(&b, "\\x%02x", r)
		} else {
			b.WriteRune(r)
		}
	}
	return b.String()
}

func litString(e ast.Expr) (string, error) {
	switch x := e.(type) {
	case *ast.BasicLit:
		if x.Kind == token.STRING {
			return strconv.Unquote(x.Value)
		}
	case *ast.BinaryExpr:
		if x.Op == token.ADD {
			a, err := litString(x.X)
			if err != nil {
				return "", err
			}
			b, err := litString(x.Y)
			if err != nil {
				return "", err
			}
			return a + b, nil
		}
	case *ast.ParenExpr:
		return litString(x.X)
	}
	return "", fmt.Errorf("string literal expected")
}

func (le *langEnv) dfa(e ast.Expr) (*DFA, error) {
	switch x := e.(type) {
	case *ast.ParenExpr:
		return le.dfa(x.X)
	case *ast.Ident:
		if d, ok := le.cache[x.Name]; ok {
			return d, nil
		}
		if le.stack[x.Name] {
			return nil, fmt.Errorf("recursive language %s", x.Name)
		}
		ld, ok := le.p.spec.Langs[x.Name]
		if !ok {
			return nil, fmt.Errorf("unknown language %s", x.Name)
		}
		var d *DFA
		var err error
		if ld.Code {
			d = leafDFA(le.leaves[le.p.codeRegex[x.Name]], le.al)
		} else {
			le.stack[x.Name] = true
			d, err = le.dfa(ld.Expr)
			delete(le.stack, x.Name)
			if err != nil {
				return nil, err
			}
		}
		le.cache[x.Name] = d
		return d, nil
	case *ast.CallExpr:
		fn := x.Fun.(*ast.Ident).Name
		var args []*DFA
		if fn == "lquot" || fn == "rquot" {
			d, err := le.dfa(x.Args[0])
			if err != nil {
				return nil, err
			}
			w, _ := litString(x.Args[1])
			if fn == "lquot" {
				return leftQuotient(d, w, le.al), nil
			}
			return rightQuotient(d, w, le.al), nil
		}
		if fn == "whole" {
			pat, err := le.p.wholePattern(x)
			if err != nil {
				return nil, err
			}
			key := "regex:" + pat
			if d, ok := le.cache[key]; ok {
				return d, nil
			}
			d := leafDFA(le.leaves[pat], le.al)
			le.cache[key] = d
			return d, nil
		}
		if fn != "regex" && fn != "lit" {
			for _, a := range x.Args {
				d, err := le.dfa(a)
				if err != nil {
					return nil, err
				}
				args = append(args, d)
			}
		}
		switch fn {
		case "regex":
			s, _ := litString(x.Args[0])
			key := "regex:" + s
			if d, ok := le.cache[key]; ok {
				return d, nil
			}
			d := leafDFA(le.leaves[s], le.al)
			le.cache[key] = d
			return d, nil
		case "lit":
			s, _ := litString(x.Args[0])
			pat := "^(?s:" + regexpQuote(s) + ")$"
			key := "regex:" + pat
			if d, ok := le.cache[key]; ok {
				return d, nil
			}
			d := leafDFA(le.leaves[pat], le.al)
			le.cache[key] = d
			return d, nil
		case "and":
			d := args[0]
			for _, o := range args[1:] {
				d = product(d, o, func(a, b bool) bool { return a && b })
			}
			return d, nil
		case "or":
			d := args[0]
			for _, o := range args[1:] {
				d = product(d, o, func(a, b bool) bool { return a || b })
			}
			return d, nil
		case "minus":
			return product(args[0], args[1], func(a, b bool) bool { return a && !b }), nil
		case "not":
			return complement(args[0]), nil
		case "concat":
			d := args[0]
			for _, o := range args[1:] {
				d = concatDFA(d, o)
			}
			return d, nil
		case "prefixes":
			return prefixesDFA(args[0]), nil
		case "plus":
			return plusDFA(args[0]), nil
		case "star":
			return product(plusDFA(args[0]), epsilonDFA(len(args[0].delta[0])), func(a, b bool) bool { return a || b }), nil
		case "lowerpre":
			return lowerPreimage(args[0], le.al), nil
		}
		return nil, fmt.Errorf("unknown language operator %s", fn)
	}
	return nil, fmt.Errorf("bad language expression")
}

// codeRegexPattern finds the constant pattern of a package-level regexp variable of the repo.
func (p *Prog) codeRegexPatternLocked(varName string) (string, error) {
	return p.codeRegexPattern(varName)
}

func (p *Prog) codeRegexPattern(varName string) (string, error) {
	for _, pk := range p.pkgs {
		obj := pk.Types.Scope().Lookup(varName)
		if obj == nil {
			continue
		}
		fx := &FuncCtx{prog: p, pkg: pk, counts: map[string]int{}, trusted: map[string]bool{}, langsUsed: map[string]bool{}, specUsed: map[string]bool{}}
		var v Val
		var err error
		func() {
			defer func() {
				if r := recover(); r != nil {
					err = fmt.Errorf("%v", r)
				}
			}()
			vo, ok := obj.(*types.Var)
			if !ok {
				panic(unsupported{varName + " is not a variable"})
			}
			v = fx.globalVal(vo, nil)
		}()
		if err != nil {
			return "", err
		}
		if rv, ok := v.(VRegex); ok {
			return rv.Pattern, nil
		}
		return "", fmt.Errorf("%s is not a regexp compiled from a constant", varName)
	}
	return "", fmt.Errorf("regexp variable %s not found in the repository", varName)
}

// registerSpecRegex registers an engine-generated language given by a pattern.
func (p *Prog) registerSpecRegex(name, pattern string) {
	p.rxMu.Lock()
	defer p.rxMu.Unlock()
	if _, ok := p.spec.Langs[name]; ok {
		return
	}
	e, _ := parser.ParseExpr("regex(" + strconv.Quote(pattern) + ")")
	p.spec.Langs[name] = &LangDef{Name: name, Text: pattern, Expr: e}
	p.spec.LangOrder = append(p.spec.LangOrder, name)
}

func numSubexp(pattern string) (int, error) {
	re, err := syntax.Parse(pattern, syntax.Perl)
	if err != nil {
		return 0, err
	}
	return re.MaxCap(), nil
}

// groupChar looks up the directive "groupchar VAR IDX "LIT" LANG [serves ...]".
func (p *Prog) groupChar(v string, idx int, lit string) (string, bool) {
	for _, r := range p.spec.Raw["groupchar"] {
		f := strings.Fields(r.Text)
		if len(f) < 4 {
			continue
		}
		l, err := strconv.Unquote(f[2])
		if err != nil {
			continue
		}
		if f[0] == v && f[1] == strconv.Itoa(idx) && l == lit {
			return f[3], true
		}
	}
	return "", false
}

// charSeqAxiom: for a language ^C1 C2 ... Cn$ whose Ci are ASCII character classes, membership of an
// explicit n-element sequence is the conjunction of the class tests (engine-generated bridging fact
// between byte-level terms and the language predicate; listed in the trusted base).
func charSeqAxiom(name, pattern string) string {
	re, err := syntax.Parse(pattern, syntax.Perl)
	if err != nil {
		return ""
	}
	re = re.Simplify()
	var items []*syntax.Regexp
	if re.Op == syntax.OpConcat {
		items = re.Sub
	} else {
		items = []*syntax.Regexp{re}
	}
	if len(items) < 3 || items[0].Op != syntax.OpBeginText || items[len(items)-1].Op != syntax.OpEndText {
		return ""
	}
	items = items[1 : len(items)-1]
	var classes [][]rune
	for _, it := range items {
		switch it.Op {
		case syntax.OpLiteral:
			if it.Flags&syntax.FoldCase != 0 {
				return ""
			}
			for _, r := range it.Rune {
				classes = append(classes, []rune{r, r})
			}
		case syntax.OpCharClass:
			classes = append(classes, it.Rune)
		default:
			return ""
		}
	}
	if len(classes) == 0 || len(classes) > 8 {
		return ""
	}
	var vars, tests []string
	term := ""
	for i := len(classes) - 1; i >= 0; i-- {
		v := fmt.Sprintf("c%d", i)
		if term == "" {
			term = "(bs_unit " + v + ")"
		} else {
			term = "(bs_cat (bs_unit " + v + ") " + term + ")"
		}
	}
	for i, cl := range classes {
		v := fmt.Sprintf("c%d", i)
		vars = append(vars, "("+v+" Int)")
		var ds []string
		for k := 0; k+1 < len(cl); k += 2 {
			lo, hi := cl[k], cl[k+1]
			if hi >= 0x80 {
				return "" // only ASCII classes: a byte below 0x80 is the code point itself (U1)
			}
			if lo == hi {
				ds = append(ds, fmt.Sprintf("(= %s %d)", v, lo))
			} else {
				ds = append(ds, fmt.Sprintf("(and (<= %d %s) (<= %s %d))", lo, v, v, hi))
			}
		}
		tests = append(tests, sOr(ds...))
	}
	return fmt.Sprintf("(assert (forall (%s) (! (= (inlang_%s %s) %s) :pattern ((inlang_%s %s)))))", strings.Join(vars, " "), name, term, sAnd(tests...), name, term)
}

// byteClassTest renders membership of a byte in a character class as a test on the byte. The class
// must be ASCII-only, or contain every code point from U+0080 up (then a byte >= 0x80, which
// belongs to a non-ASCII code point or decodes to U+FFFD, passes): assumption U1.
func byteClassTest(cl []rune, v string) (string, bool) {
	var ds []string
	coASCII := false
	for k := 0; k+1 < len(cl); k += 2 {
		lo, hi := cl[k], cl[k+1]
		if hi >= 0x80 {
			if hi != 0x10FFFF || lo > 0x80 {
				return "", false
			}
			coASCII = true
			hi = 0x7f
			if lo > hi {
				continue
			}
		}
		switch {
		case lo == hi:
			ds = append(ds, fmt.Sprintf("(= %s %d)", v, lo))
		case lo == 0:
			// array elements model bytes: never negative
			ds = append(ds, fmt.Sprintf("(<= %s %d)", v, hi))
		default:
			ds = append(ds, fmt.Sprintf("(and (<= %d %s) (<= %s %d))", lo, v, v, hi))
		}
	}
	if coASCII {
		ds = append(ds, fmt.Sprintf("(>= %s 128)", v))
	}
	return sOr(ds...), true
}

func classOfItem(it *syntax.Regexp) ([]rune, bool) {
	switch it.Op {
	case syntax.OpLiteral:
		if it.Flags&syntax.FoldCase != 0 || len(it.Rune) != 1 {
			return nil, false
		}
		return []rune{it.Rune[0], it.Rune[0]}, true
	case syntax.OpCharClass:
		return it.Rune, true
	case syntax.OpAnyChar:
		return []rune{0, 0x10FFFF}, true
	}
	return nil, false
}

// classShapeAxiom: bridging facts between byte-level views and three shapes of language, read off
// the pattern that defines the language (engine-generated; in the trusted base):
//
//	^C*$ / ^C+$    every byte of the view passes the class test (and the view is not empty)
//	(?s)^.*C$      the view is not empty and its last byte passes
//	(?s)^C.*$      the view is not empty and its first byte passes
//
// C is ASCII-only or contains all non-ASCII code points, so that the byte test and the code-point
// test agree whatever the UTF-8 validity of the bytes.
func classShapeAxiom(name, pattern string) string {
	re, err := syntax.Parse(pattern, syntax.Perl)
	if err != nil {
		return ""
	}
	re = re.Simplify()
	if re.Op != syntax.OpConcat || len(re.Sub) < 3 || re.Sub[0].Op != syntax.OpBeginText || re.Sub[len(re.Sub)-1].Op != syntax.OpEndText {
		return ""
	}
	items := re.Sub[1 : len(re.Sub)-1]
	isAnyStar := func(it *syntax.Regexp) bool {
		return it.Op == syntax.OpStar && it.Sub[0].Op == syntax.OpAnyChar
	}
	view := "(bs_val b o l)"
	hdr := "(assert (forall ((b (Array Int Int)) (o Int) (l Int)) (! (=> (>= l 0) (= (inlang_" + name + " " + view + ") "
	tail := ")) :pattern ((inlang_" + name + " " + view + ")))))"
	switch {
	case len(items) == 1 && (items[0].Op == syntax.OpStar || items[0].Op == syntax.OpPlus):
		cl, ok := classOfItem(items[0].Sub[0])
		if !ok {
			return ""
		}
		test, ok := byteClassTest(cl, "(select b kk)")
		if !ok {
			return ""
		}
		min := "0"
		if items[0].Op == syntax.OpPlus {
			min = "1"
		}
		return hdr + fmt.Sprintf("(and (>= l %s) (forall ((kk Int)) (=> (and (<= o kk) (< kk (+ o l))) %s)))", min, test) + tail
	case len(items) == 2 && isAnyStar(items[0]):
		cl, ok := classOfItem(items[1])
		if !ok {
			return ""
		}
		test, ok := byteClassTest(cl, "(select b (- (+ o l) 1))")
		if !ok {
			return ""
		}
		return hdr + "(and (>= l 1) " + test + ")" + tail
	case len(items) == 2 && isAnyStar(items[1]):
		cl, ok := classOfItem(items[0])
		if !ok {
			return ""
		}
		test, ok := byteClassTest(cl, "(select b o)")
		if !ok {
			return ""
		}
		return hdr + "(and (>= l 1) " + test + ")" + tail
	}
	return ""
}

// declareRemoval registers the uninterpreted function rm_<var> and, for every "removal" directive
// about it, the axiom  not inlang(re_<invalid>, rm_<var>(s))  <=>  inlang(<Acc>, s).
func (p *Prog) declareRemoval(v string) {
	p.rxMu.Lock()
	defer p.rxMu.Unlock()
	name := "rm_" + v
	if _, ok := p.spec.Funcs[name]; ok {
		return
	}
	def := fmt.Sprintf("(declare-fun %s (BSeq) BSeq)", name)
	var langs []string
	for _, r := range p.spec.Raw["removal"] {
		f := strings.Fields(r.Text)
		if len(f) >= 3 && f[0] == v {
			def += fmt.Sprintf("\n(assert (forall ((s BSeq)) (! (= (not (inlang_re_%s (%s s))) (inlang_%s s)) :pattern ((%s s)))))", f[1], name, f[2], name)
			langs = append(langs, "re_"+f[1], f[2])
			if _, ok := p.spec.Langs["re_"+f[1]]; !ok {
				if pat, err := p.codeRegexPatternLocked(f[1]); err == nil {
					p.codeRegex["re_"+f[1]] = pat
					p.spec.Langs["re_"+f[1]] = &LangDef{Name: "re_" + f[1], Text: "code:" + pat, Code: true}
				}
			}
		}
	}
	p.spec.Funcs[name] = &SpecFunc{Name: name, Params: []SpecParam{{"s", "seq"}}, Ret: "seq", Prerendered: def, PreLangs: langs}
	p.spec.FuncOrder = append(p.spec.FuncOrder, name)
}

// ensureAnyOf registers the engine-generated language anyof_XX_YY ("contains one of these bytes").
func (p *Prog) ensureAnyOf(name string) {
	if !strings.HasPrefix(name, "anyof_") {
		return
	}
	var cls strings.Builder
	for _, h := range strings.Split(strings.TrimPrefix(name, "anyof_"), "_") {
		cls.WriteString("\\x" + h)
	}
	p.registerSpecRegex(name, "(?s)["+cls.String()+"]")
}

// minLen: length of a shortest word of a named language (runes; a lower bound for bytes).
func (p *Prog) minLen(lang string) (int, bool) {
	le, err := p.lemmaEnv([]ast.Expr{ast.NewIdent(lang)})
	if err != nil {
		return 0, false
	}
	d, err := le.dfa(ast.NewIdent(lang))
	if err != nil {
		return 0, false
	}
	w, ok := d.shortest()
	if !ok {
		return 0, false
	}
	return len(w), true
}
