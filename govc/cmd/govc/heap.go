package main

// Heap dialect (pointers to structs, maps stored in fields) and interface values.

import (
	"fmt"
	"go/ast"
	"go/types"
)

// dynamic type tags of interface{} values seen by the sanitizers
const (
	tagOther = iota
	tagString
	tagHTML
	tagScript
	tagStyle
	tagStyleSheet
	tagURL
	tagTrustedResourceURL
	tagIdentifier
	tagURLSet
	tagNilIface
)

// names usable in contracts
var ghostTags = map[string]int{"tagOther": tagOther, "tagString": tagString, "tagHTML": tagHTML, "tagScript": tagScript, "tagStyle": tagStyle,
	"tagStyleSheet": tagStyleSheet, "tagURL": tagURL, "tagTrustedResourceURL": tagTrustedResourceURL, "tagIdentifier": tagIdentifier,
	"tagURLSet": tagURLSet, "tagNilIface": tagNilIface, "tagPtrBase": tagPtrBase}

// tagPtrBase + t is the tag of a non-nil pointer to a value of tag t (t in 1..9)
const tagPtrBase = 20

var safeTypeTags = map[string]int{
	"HTML": tagHTML, "Script": tagScript, "Style": tagStyle, "StyleSheet": tagStyleSheet, "URL": tagURL,
	"TrustedResourceURL": tagTrustedResourceURL, "Identifier": tagIdentifier, "URLSet": tagURLSet,
}

func isSafehtmlNamed(t types.Type) (string, bool) {
	n, ok := t.(*types.Named)
	if !ok || n.Obj().Pkg() == nil {
		return "", false
	}
	if n.Obj().Pkg().Path() != "github.com/google/safehtml" {
		return "", false
	}
	if _, ok := safeTypeTags[n.Obj().Name()]; ok {
		return n.Obj().Name(), true
	}
	return "", false
}

func (e *Ev) toIface(v Val, n ast.Node) VIface {
	switch x := v.(type) {
	case VIface:
		return x
	case VStr:
		return VIface{Tag: fmt.Sprintf("%d", tagString), S: x}
	case VStruct:
		if tg, ok := safeTypeTags[x.TName]; ok {
			if s, ok := x.F["str"].(VStr); ok {
				return VIface{Tag: fmt.Sprintf("%d", tg), S: s}
			}
		}
	case VNil:
		return VIface{Tag: fmt.Sprintf("%d", tagNilIface), S: e.fx.strLit("")}
	}
	e.unsupp(n, "cannot convert %T to interface{}", v)
	return VIface{}
}

func (e *Ev) evTypeAssert(x *ast.TypeAssertExpr, commaOk bool) Val {
	v := e.ev(x.X)
	iv, ok := v.(VIface)
	if !ok {
		e.unsupp(x, "type assertion on %T", v)
	}
	t := e.typeOf(x.Type)
	var tg int
	var val Val
	if b, ok := t.Underlying().(*types.Basic); ok && b.Kind() == types.String && types.Identical(t, types.Typ[types.String]) {
		tg, val = tagString, iv.S
	} else if name, ok := isSafehtmlNamed(t); ok {
		tg = safeTypeTags[name]
		val = VStruct{TName: name, Names: []string{"str"}, F: map[string]Val{"str": iv.S}}
	} else {
		e.unsupp(x, "type assertion to %s", t)
	}
	okT := sEq(iv.Tag, fmt.Sprintf("%d", tg))
	if commaOk {
		return VTuple{val, VBool{okT}}
	}
	e.safety("typeassert", "typeassert", x.Pos(), okT, "type assertion cannot fail")
	return val
}

// --- heap: not yet part of the byte dialect ---------------------------------

func (p *Prog) heapHasField(elem, name string) bool { return false }

func (e *Ev) heapRead(r VRef, field string, n ast.Node) Val {
	e.unsupp(n, "heap read %s.%s is outside the modelled subset", r.Elem, field)
	return nil
}

func (e *Ev) heapMapLookup(m VHeapMap, key Val, commaOk bool, n ast.Node) Val {
	e.unsupp(n, "heap map lookup is outside the modelled subset")
	return nil
}

func (e *Ev) evAddr(x *ast.UnaryExpr) Val {
	e.unsupp(x, "address-of is outside the modelled subset")
	return nil
}

func (e *Ev) evStar(x *ast.StarExpr) Val {
	e.unsupp(x, "pointer dereference is outside the modelled subset")
	return nil
}

func (e *Ev) havocHeapFor(con *Contract) {}

func (fx *FuncCtx) emptyHeapMap(t *types.Map) Val {
	panic(unsupported{"make(map) is outside the modelled subset"})
}

func (fx *FuncCtx) heapMapLen(m VHeapMap) Term {
	panic(unsupported{"len(map) is outside the modelled subset"})
}

func (e *Ev) evHeapGhost(name string, x *ast.CallExpr) (Val, bool) { return nil, false }

// VRangeTable is a package-level *unicode.RangeTable given by its ranges (stride 1).
type VRangeTable struct {
	Name   string
	Ranges [][2]int64
}

func (e *Ev) evModelledMethod(x *ast.CallExpr, sel *ast.SelectorExpr, fn *types.Func) (Val, bool) {
	// methods on package-level regexps
	if fn.Pkg() != nil && fn.Pkg().Path() == "regexp" {
		rv, ok := e.ev(sel.X).(VRegex)
		if !ok {
			e.unsupp(x, "regexp method on a non-table regexp")
		}
		return e.evRegexMethod(x, rv, fn.Name()), true
	}
	return nil, false
}

func (e *Ev) evRegexMethod(x *ast.CallExpr, rv VRegex, name string) Val {
	fx := e.fx
	fx.useSeq = true
	switch name {
	case "MatchString", "Match":
		s, ok := e.ev(x.Args[0]).(VStr)
		if !ok {
			e.unsupp(x, "MatchString of non-string")
		}
		ln := "re_" + rv.Var
		if !rv.Param {
			fx.prog.registerCodeRegex(ln, rv.Pattern)
		}
		fx.langsUsed[ln] = true
		fx.trusted["regexp.MatchString(s) <=> dec(s) in L(pattern) (assumed; L computed from regexp/syntax of the real pattern, DESIGN 2.5)"] = true
		return VBool{"(inlang_" + ln + " " + fx.seqOf(s) + ")"}
	}
	if name == "ReplaceAllString" {
		s, ok := e.ev(x.Args[0]).(VStr)
		rep, ok2 := e.ev(x.Args[1]).(VStr)
		if !ok || !ok2 || rep.Lit == nil || *rep.Lit != "" {
			e.unsupp(x, "ReplaceAllString is only modelled with the empty replacement")
		}
		fx.prog.registerCodeRegex("re_"+rv.Var, rv.Pattern)
		fx.specUsed["rm_"+rv.Var] = true
		fx.prog.declareRemoval(rv.Var)
		r := fx.freshStr("removed")
		fx.assume(e.st.pc, sEq(fx.seqOf(r), "(rm_"+rv.Var+" "+fx.seqOf(s)+")"))
		fx.trusted["regexp.ReplaceAllString(s, \"\") with pattern "+rv.Var+": named rm_"+rv.Var+"(s); characterised by the 'removal' directive (bounded stand-in)"] = true
		return r
	}
	if name == "FindStringSubmatch" {
		s, ok := e.ev(x.Args[0]).(VStr)
		if !ok {
			e.unsupp(x, "FindStringSubmatch of non-string")
		}
		ln := "re_" + rv.Var
		fx.prog.registerCodeRegex(ln, rv.Pattern)
		fx.langsUsed[ln] = true
		nsub, err := numSubexp(rv.Pattern)
		if err != nil {
			e.unsupp(x, "pattern of %s does not parse: %v", rv.Var, err)
		}
		fx.trusted["regexp.FindStringSubmatch(s): nil iff no match, else a slice of 1+NumSubexp strings (assumed)"] = true
		seq := fx.seqOf(s)
		return VSubmatch{Var: rv.Var, In: seq, Hit: "(inlang_" + ln + " " + seq + ")", N: 1 + nsub}
	}
	e.unsupp(x, "regexp method %s is not modelled", name)
	return nil
}
