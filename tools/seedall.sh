#!/bin/bash
# tools/seedall.sh [seed-id...]
# Re-checks every stored seeded change against the CURRENT tree in a scratch copy (so /repo and /verif
# can be edited meanwhile): the patch must still apply, the pinned suite must pass with it, the
# demonstration must fail with it and pass without it, and the property's check must report a
# violation. Writes /verif/seeded/SUMMARY.tsv and refreshes "checks_run" in each meta.json.
export GOFLAGS=-mod=mod GOPROXY=off GOSUMDB=off GOTOOLCHAIN=local
W=$(mktemp -d /tmp/seedall.XXXX)
trap 'git -C /repo worktree remove --force $W/repo 2>/dev/null; rm -rf $W' EXIT
git -C /repo worktree add -q --detach $W/repo HEAD || exit 2
mkdir -p $W/verif && (cd /verif && cp -r spec baseline known_findings.json replay $W/verif/) && rm -rf $W/verif/replay/out
cp /verif/bin/govc $W/govc
ids="$@"; [ -z "$ids" ] && ids=$(ls /verif/seeded | grep -E '^C[0-9]+-[0-9]+$' | sort -V)
out=/verif/seeded/SUMMARY.tsv; : > $W/summary
for id in $ids; do
  d=/verif/seeded/$id
  prop=$(python3 -c "import json;print(json.load(open('$d/meta.json'))['breaks_property'])")
  pkg=$(python3 -c "import json;print(json.load(open('$d/meta.json'))['demo_package_dir'])")
  cd $W/repo; git checkout -q -- . ; git clean -fdq
  cp $d/demo_test.go $pkg/zz_seed_demo_test.go
  clean=fails; (cd $pkg && go test -vet=off -count=1 -run TestSeedDemo . >/dev/null 2>&1) && clean=passes
  rm -f $pkg/zz_seed_demo_test.go
  if ! git apply $d/patch.diff 2>/dev/null; then echo -e "$id\t$prop\tPATCH-DOES-NOT-APPLY" >> $W/summary; continue; fi
  suite=pass; go test -vet=off -count=1 ./... >/dev/null 2>&1 || suite=FAIL
  cp $d/demo_test.go $pkg/zz_seed_demo_test.go
  demo=passes; (cd $pkg && go test -vet=off -count=1 -run TestSeedDemo . >/dev/null 2>&1) || demo=fails
  rm -f $pkg/zz_seed_demo_test.go
  res=$(cd /verif && GOVC_REPO=$W/repo GOVC_VERIF=$W/verif GOVC_EVIDENCE_DIR=$W/ev $W/govc check $prop quick 2>&1); code=$?
  nviol=$(echo "$res" | grep -c '^VIOLATION')
  real=$(echo "$res" | grep '^VIOLATION' | grep -vc 'no-failing-input-found')
  first=$(echo "$res" | grep -A1 '^VIOLATION' | grep -v '^VIOLATION' | head -1 | sed 's/^ *//' | cut -c1-150)
  echo -e "$id\t$prop\tsuite=$suite\tdemo_with=$demo\tdemo_clean=$clean\texit=$code\tviolations=$nviol\twith_failing_input=$real\t$first" >> $W/summary
  python3 - "$d/meta.json" "$prop" "$code" "$nviol" "$real" "$first" "$suite" "$demo" "$clean" <<'PY'
import json,sys
f,prop,code,nv,real,first,suite,demo,clean=sys.argv[1:]
m=json.load(open(f))
m.setdefault("checks_run",{})[prop]={"exit":int(code),"violations":int(nv),"violations_with_failing_input":int(real),"first_report":first}
m["rechecked_on_current_tree"]={"suite_with_patch":suite,"demo_with_patch":demo,"demo_on_clean_tree":clean}
json.dump(m,open(f,"w"),indent=1)
PY
done
# merge into the stored summary (a partial run replaces only the lines of the seeds it re-checked)
python3 - "$out" "$W/summary" <<'PY'
import sys,re
out,new=sys.argv[1:]
rows={}
try:
    for l in open(out):
        if l.strip(): rows[l.split("\t")[0]]=l.rstrip("\n")
except FileNotFoundError: pass
for l in open(new):
    if l.strip(): rows[l.split("\t")[0]]=l.rstrip("\n")
key=lambda k:[int(x) for x in re.findall(r"\d+",k)]
open(out,"w").write("\n".join(rows[k] for k in sorted(rows,key=key))+"\n")
PY
cat $W/summary
