package main

// Obligations that do not come from a function body or a lemma: bounded stand-ins and
// assumption validations. They are labelled "bounded" and never counted as proved.

import (
	"encoding/json"
	"fmt"
	"go/ast"
	"go/parser"
	"go/types"
	"regexp"
	"strconv"
	"strings"
)

func preSolved(name, kind, pos, desc string, ok bool, detail string, serves []string) *Obligation {
	v := VUnsat
	if !ok {
		v = VSat
	}
	return &Obligation{Name: name, Kind: kind, Pos: pos, Desc: desc, Expect: VUnsat, Serves: serves,
		Result: &SolveResult{Verdict: v, Solver: "bounded-enumeration", Output: detail}}
}

func (p *Prog) extraObligations(o checkOpts) (obs []*Obligation, notes []string, errs []string) {
	for _, r := range p.spec.Raw["groupchar"] {
		text := r.Text
		var serves []string
		if k := strings.Index(text, " serves "); k >= 0 {
			serves = strings.Fields(text[k+8:])
			text = text[:k]
		}
		if !servesProp(serves, o.id) {
			continue
		}
		f := strings.Fields(text)
		if len(f) != 4 {
			errs = append(errs, fmt.Sprintf("%s:%d: bad groupchar directive", r.File, r.Line))
			continue
		}
		varName, lang := f[0], f[3]
		idx, _ := strconv.Atoi(f[1])
		lit, err := strconv.Unquote(f[2])
		if err != nil {
			errs = append(errs, fmt.Sprintf("%s:%d: bad groupchar literal", r.File, r.Line))
			continue
		}
		pat, err := p.codeRegexPattern(varName)
		if err != nil {
			errs = append(errs, err.Error())
			continue
		}
		p.registerCodeRegex("re_"+varName, pat)
		le, err := p.lemmaEnv([]ast.Expr{ast.NewIdent("re_" + varName), ast.NewIdent(lang)})
		if err != nil {
			errs = append(errs, err.Error())
			continue
		}
		dl, err := le.dfa(ast.NewIdent(lang))
		if err != nil {
			errs = append(errs, err.Error())
			continue
		}
		re, err := regexp.Compile(pat)
		if err != nil {
			errs = append(errs, err.Error())
			continue
		}
		accepts := func(s string) bool {
			q := dl.init
			for _, r := range s {
				q = int(dl.delta[q][le.al.classOf(r)])
			}
			return dl.acc[q]
		}
		var reps []string
		for c, r := range le.al.reps {
			if c == le.al.surr {
				continue
			}
			reps = append(reps, string(r))
		}
		seeds := []string{"", lit, lit + ":", lit[:len(lit)-1], lit + "x", strings.ToUpper(lit) + ":", lit + lit}
		checked := 0
		bad := ""
		test := func(s string) {
			if bad != "" {
				return
			}
			checked++
			sub := re.FindStringSubmatch(s)
			if sub == nil || idx >= len(sub) {
				return
			}
			if (sub[idx] == lit) != accepts(s) {
				bad = s
			}
		}
		// all strings of length <= 3 over the class representatives
		var rec func(prefix string, d int)
		rec = func(prefix string, d int) {
			test(prefix)
			if d == 3 {
				return
			}
			for _, r := range reps {
				rec(prefix+r, d+1)
			}
		}
		rec("", 0)
		// seeded: u m v with |u|,|v| <= 2
		var uv []string
		uv = append(uv, "")
		for _, a := range reps {
			uv = append(uv, a)
			for _, b := range reps {
				uv = append(uv, a+b)
			}
		}
		for _, m := range seeds {
			for _, u := range uv {
				for _, v := range uv {
					if len(u) > 4 && len(v) > 4 {
						continue
					}
					test(u + m + v)
				}
			}
		}
		name := fmt.Sprintf("bounded.groupchar.%s.%d", varName, idx)
		desc := fmt.Sprintf("BOUNDED stand-in: on every tested string matched by %s, group %d == %q iff the string is in %s (%d strings: all of length <= 3 over %d class representatives, plus u.m.v with seeds around %q)", varName, idx, lit, lang, checked, len(reps), lit)
		ob := preSolved(name, "bounded", fmt.Sprintf("%s:%d", shortSpec(r.File), r.Line), desc, bad == "", fmt.Sprintf("counterexample: %q", bad), serves)
		obs = append(obs, ob)
		notes = append(notes, desc)
	}
	// removal characterisations: {s : !re_invalid.Match(re_str.ReplaceAllString(s, ""))} == Acc
	for _, r := range p.spec.Raw["removal"] {
		text := r.Text
		var serves []string
		if k := strings.Index(text, " serves "); k >= 0 {
			serves = strings.Fields(text[k+8:])
			text = text[:k]
		}
		if !servesProp(serves, o.id) {
			continue
		}
		f := strings.Fields(text)
		if len(f) != 3 {
			errs = append(errs, fmt.Sprintf("%s:%d: bad removal directive", r.File, r.Line))
			continue
		}
		strPat, err1 := p.codeRegexPattern(f[0])
		invPat, err2 := p.codeRegexPattern(f[1])
		if err1 != nil || err2 != nil {
			errs = append(errs, fmt.Sprintf("%s:%d: removal: %v %v", r.File, r.Line, err1, err2))
			continue
		}
		p.registerCodeRegex("re_"+f[0], strPat)
		p.registerCodeRegex("re_"+f[1], invPat)
		le, err := p.lemmaEnv([]ast.Expr{ast.NewIdent("re_" + f[0]), ast.NewIdent("re_" + f[1]), ast.NewIdent(f[2])})
		if err != nil {
			errs = append(errs, err.Error())
			continue
		}
		acc, err := le.dfa(ast.NewIdent(f[2]))
		if err != nil {
			errs = append(errs, err.Error())
			continue
		}
		reStr, e1 := regexp.Compile(strPat)
		reInv, e2 := regexp.Compile(invPat)
		if e1 != nil || e2 != nil {
			errs = append(errs, "removal: pattern does not compile")
			continue
		}
		var reps []string
		for c, rr := range le.al.reps {
			if c != le.al.surr {
				reps = append(reps, string(rr))
			}
		}
		checked, bad := 0, ""
		var rec func(prefix string, q int, d int)
		rec = func(prefix string, q int, d int) {
			if bad != "" {
				return
			}
			checked++
			real := !reInv.MatchString(reStr.ReplaceAllString(prefix, ""))
			if real != acc.acc[q] {
				bad = prefix
				return
			}
			if d == 5 {
				return
			}
			for _, rp := range reps {
				nq := q
				for _, ru := range rp {
					nq = int(acc.delta[nq][le.al.classOf(ru)])
				}
				rec(prefix+rp, nq, d+1)
			}
		}
		rec("", acc.init, 0)
		desc := fmt.Sprintf("BOUNDED stand-in: for every tested s, !%s.Match(%s.ReplaceAllString(s, \"\")) iff s is in %s (%d strings: all of length <= 5 over %d class representatives)", f[1], f[0], f[2], checked, len(reps))
		obs = append(obs, preSolved("bounded.removal."+f[0], "bounded", fmt.Sprintf("%s:%d", shortSpec(r.File), r.Line), desc, bad == "", fmt.Sprintf("counterexample: %q", bad), serves))
		notes = append(notes, desc)
	}
	// bounded stand-ins executed on the real code through the replay harness
	for _, r := range p.spec.Raw["harness"] {
		text := r.Text
		// harness NAME PKG KIND key=value... serves IDS : DESCRIPTION
		desc := ""
		if k := strings.Index(text, " : "); k >= 0 {
			desc = strings.TrimSpace(text[k+3:])
			text = text[:k]
		}
		var serves []string
		if k := strings.Index(text, " serves "); k >= 0 {
			serves = strings.Fields(text[k+8:])
			text = text[:k]
		}
		if !servesProp(serves, o.id) {
			continue
		}
		f := strings.Fields(text)
		if len(f) < 3 {
			errs = append(errs, fmt.Sprintf("%s:%d: bad harness directive", r.File, r.Line))
			continue
		}
		args := map[string]string{}
		for _, kv := range f[3:] {
			if k := strings.Index(kv, "="); k > 0 {
				// \s and \t stand for a space and a tab inside a value
				args[kv[:k]] = strings.NewReplacer(`\s`, " ", `\t`, "\t").Replace(kv[k+1:])
			}
		}
		if o.tier == "thorough" {
			// "key_thorough=value" replaces "key=value" in the thorough tier (larger bounds)
			for k, v := range args {
				if strings.HasSuffix(k, "_thorough") {
					args[strings.TrimSuffix(k, "_thorough")] = v
				}
			}
		}
		for k := range args {
			if strings.HasSuffix(k, "_thorough") {
				delete(args, k)
			}
		}
		if ln := args["lang"]; ln != "" {
			// the job works on the members of a spec language: all strings over the alphabet up to
			// maxlen that the language's automaton accepts, enumerated here
			le, err := p.lemmaEnv([]ast.Expr{ast.NewIdent(ln)})
			if err != nil {
				errs = append(errs, err.Error())
				continue
			}
			d, err := le.dfa(ast.NewIdent(ln))
			if err != nil {
				errs = append(errs, err.Error())
				continue
			}
			maxlen := 0
			fmt.Sscanf(args["maxlen"], "%d", &maxlen)
			live := liveStates(d)
			var members []string
			var rec func(prefix string, q int)
			rec = func(prefix string, q int) {
				if d.acc[q] {
					members = append(members, prefix)
				}
				if len(prefix) == maxlen {
					return
				}
				for _, ru := range args["alphabet"] {
					nq := int(d.delta[q][le.al.classOf(ru)])
					if live[nq] {
						rec(prefix+string(ru), nq)
					}
				}
			}
			rec("", d.init)
			mj, _ := json.Marshal(members)
			args["strings"] = string(mj)
		}
		rs, err := p.runHarness(o, f[1], []replayJob{{ID: f[0], Kind: f[2], Args: args}})
		ok, detail := false, ""
		if err != nil {
			detail = err.Error()
		} else if len(rs) == 1 {
			ok, detail = rs[0].OK, rs[0].Detail
		}
		hob := preSolved("bounded.harness."+f[0], "bounded", fmt.Sprintf("%s:%d", shortSpec(r.File), r.Line), "BOUNDED stand-in (real code, exhaustive enumeration): "+desc+" ["+detail+"]", ok, detail, serves)
		if err == nil {
			jargs := map[string]string{}
			for k, v := range args {
				if k != "strings" {
					jargs[k] = v
				}
			}
			hob.HarnessPkg, hob.HarnessJob = f[1], &replayJob{ID: f[0], Kind: f[2], Args: jargs}
		}
		obs = append(obs, hob)
		notes = append(notes, "bounded harness "+f[0]+": "+desc+" ["+detail+"]")
	}
	_ = json.Marshal
	// lemmas about package-level tables of the repository: "tablelemma PKG NAME: EXPR"
	for _, r := range p.spec.Raw["tablelemma"] {
		text := r.Text
		var serves []string
		if k := strings.Index(text, " serves "); k >= 0 {
			serves = strings.Fields(text[k+8:])
			text = text[:k]
		}
		if !servesProp(serves, o.id) {
			continue
		}
		f := strings.SplitN(strings.TrimSpace(text), " ", 2)
		if len(f) != 2 {
			errs = append(errs, fmt.Sprintf("%s:%d: tablelemma PKG NAME: EXPR expected", r.File, r.Line))
			continue
		}
		pk := p.byPath[f[0]]
		m := labelRe.FindStringSubmatch(f[1])
		if pk == nil || m == nil {
			errs = append(errs, fmt.Sprintf("%s:%d: bad tablelemma", r.File, r.Line))
			continue
		}
		ex, err := parser.ParseExpr(rewriteImplies(m[2]))
		if err != nil {
			errs = append(errs, fmt.Sprintf("%s:%d: %v", r.File, r.Line, err))
			continue
		}
		func() {
			defer func() {
				if rec := recover(); rec != nil {
					// the table can no longer be extracted: the lemma is not discharged
					obs = append(obs, &Obligation{Name: "tablelemma." + m[1], Kind: "lemma", Pos: fmt.Sprintf("%s:%d", shortSpec(r.File), r.Line), Desc: m[2] + fmt.Sprintf(" [table not extractable: %v]", rec), Expect: VUnsat, Script: "(check-sat)\n", Serves: serves})
				}
			}()
			fx := &FuncCtx{prog: p, pkg: pk, counts: map[string]int{}, trusted: map[string]bool{}, langsUsed: map[string]bool{}, specUsed: map[string]bool{}}
			ev := &Ev{fx: fx, st: &State{pc: "true", env: map[types.Object]Val{}}, contract: true, bound: map[string]Val{}, pkg: pk.Types}
			goal := ev.boolOf(ev.ev(ex), ex)
			script := p.header(fx.useSeq, fx.specUsed, fx.langsUsed, nil) + strings.Join(fx.lines, "\n") + "\n(assert (not " + goal + "))\n(check-sat)\n(get-model)\n"
			obs = append(obs, &Obligation{Name: "tablelemma." + m[1], Kind: "lemma", Pos: fmt.Sprintf("%s:%d", shortSpec(r.File), r.Line), Desc: m[2], Expect: VUnsat, Script: script, Serves: serves})
		}()
	}
	// stand-alone SMT lemmas over spec functions
	for _, r := range p.spec.Raw["smtlemma"] {
		text := r.Text
		var serves []string
		if k := strings.Index(text, " serves "); k >= 0 {
			serves = strings.Fields(text[k+8:])
			text = text[:k]
		}
		if !servesProp(serves, o.id) {
			continue
		}
		m := labelRe.FindStringSubmatch(text)
		if m == nil {
			errs = append(errs, fmt.Sprintf("%s:%d: smtlemma needs a name", r.File, r.Line))
			continue
		}
		ex, err := parser.ParseExpr(rewriteImplies(m[2]))
		if err != nil {
			errs = append(errs, fmt.Sprintf("%s:%d: %v", r.File, r.Line, err))
			continue
		}
		func() {
			defer func() {
				if rec := recover(); rec != nil {
					errs = append(errs, fmt.Sprintf("%s:%d: %v", r.File, r.Line, rec))
				}
			}()
			fx := &FuncCtx{prog: p, counts: map[string]int{}, trusted: map[string]bool{}, langsUsed: map[string]bool{}, specUsed: map[string]bool{}}
			ev := &Ev{fx: fx, st: &State{pc: "true"}, contract: true, bound: map[string]Val{}}
			goal := ev.boolOf(ev.ev(ex), ex)
			script := p.header(fx.useSeq, fx.specUsed, fx.langsUsed, nil) + strings.Join(fx.lines, "\n") + "\n(assert (not " + goal + "))\n(check-sat)\n(get-model)\n"
			obs = append(obs, &Obligation{Name: "smtlemma." + m[1], Kind: "lemma", Pos: fmt.Sprintf("%s:%d", shortSpec(r.File), r.Line), Desc: m[2], Expect: VUnsat, Script: script, Serves: serves})
		}()
	}
	// differential validation of the regex->DFA translation for every code regex the property uses
	more, mnotes := p.validateCodeRegexes(o)
	obs = append(obs, more...)
	notes = append(notes, mnotes...)
	return
}

// validateCodeRegexes compares each code pattern's DFA with package regexp on all strings of
// length <= 3 over its own class representatives (assumption validation; bounded).
func (p *Prog) validateCodeRegexes(o checkOpts) (obs []*Obligation, notes []string) {
	seen := map[string]bool{}
	for _, lm := range p.spec.Lemmas {
		if !servesProp(lm.Serves, o.id) {
			continue
		}
		leaves := map[string]bool{}
		nl := false
		for _, a := range lm.Args {
			p.collectLeaves(a, leaves, &nl, map[string]bool{})
		}
		for pat := range leaves {
			if seen[pat] {
				continue
			}
			seen[pat] = true
			l, err := compileLeaf(pat)
			if err != nil {
				continue
			}
			le := &langEnv{p: p, leaves: map[string]*leafRegex{pat: l}, cache: map[string]*DFA{}, stack: map[string]bool{}}
			le.al = buildAlphabet([]*leafRegex{l}, nil, false)
			d := leafDFA(l, le.al)
			vl, vlim := 4, 200000
			if o.tier == "thorough" {
				vl, vlim = 5, 2000000
			}
			n, mm := validateLeaf(pat, le, d, vl, vlim)
			name := "bounded.regex-dfa." + sanitizeIdent(truncate(pat, 40)) + fmt.Sprintf("_%d", len(pat))
			desc := fmt.Sprintf("ASSUMPTION VALIDATION (bounded): DFA of %q agrees with regexp.MatchString on %d strings (length <= 4 over %d class representatives)", pat, n, len(le.al.reps))
			obs = append(obs, preSolved(name, "bounded", "", desc, mm == "", mm, lm.Serves))
		}
	}
	notes = append(notes, fmt.Sprintf("regex->DFA translation validated differentially for %d patterns", len(seen)))
	return
}

// liveStates marks the states from which an accepting state can be reached.
func liveStates(d *DFA) []bool {
	n := d.n()
	live := make([]bool, n)
	for q := 0; q < n; q++ {
		live[q] = d.acc[q]
	}
	for changed := true; changed; {
		changed = false
		for q := 0; q < n; q++ {
			if live[q] {
				continue
			}
			for _, t := range d.delta[q] {
				if live[t] {
					live[q] = true
					changed = true
					break
				}
			}
		}
	}
	return live
}
