package main

// Expression evaluation (code mode over the typed AST, contract mode over parsed clauses).

import (
	"fmt"
	"go/ast"
	"go/constant"
	"go/token"
	"go/types"
	"strconv"
	"strings"
)

type Ev struct {
	fx          *FuncCtx
	st          *State
	contract    bool
	lookup      func(name string) (Val, bool) // contract mode
	bound       map[string]Val
	oldEv       *Ev
	beforeEv    *Ev
	loopEntryEv *Ev
	modKeys     []string // heap locations of the contract being evaluated (for onlyobjects)
	info        *types.Info
	pkg         *types.Package
	nosafety    bool
}

func (e *Ev) withPC(pc Term) *Ev {
	n := *e
	st := *e.st
	st.pc = pc
	n.st = &st
	return &n
}

func (e *Ev) unsupp(n ast.Node, format string, args ...interface{}) {
	unsupp(n.Pos(), e.fsetFor(n), format, args...)
}

func (e *Ev) fsetFor(n ast.Node) *token.FileSet {
	if e.contract {
		return nil
	}
	return e.fx.prog.fset
}

func (e *Ev) safety(kind, label string, pos token.Pos, goal Term, desc string) {
	if e.contract || e.nosafety {
		return
	}
	e.fx.obligeN(kind, label, pos, e.st.pc, goal, desc)
}

func (e *Ev) boolOf(v Val, n ast.Node) Term {
	switch x := v.(type) {
	case VBool:
		return x.T
	}
	e.unsupp(n, "expected a boolean, got %T", v)
	return ""
}

func (e *Ev) intOf(v Val, n ast.Node) Term {
	switch x := v.(type) {
	case VInt:
		return x.T
	case VRef:
		if e.contract {
			return x.T
		}
	case VErr:
		if e.contract {
			return x.T
		}
	}
	e.unsupp(n, "expected an integer, got %T", v)
	return ""
}

func (e *Ev) seqArg(v Val, n ast.Node) Term {
	switch x := v.(type) {
	case VSeq:
		return x.T
	case VStr:
		return e.fx.seqOf(x)
	case VBuf:
		return x.Seq
	case VBufPtr:
		return e.st.env[x.Obj].(VBuf).Seq
	case VRunes:
		return x.Seq
	case VIface:
		e.fx.useSeq = true
		e.fx.specUsed["iface_pack"] = true
		return "(iface_pack " + x.Tag + " " + e.fx.seqOf(x.S) + ")"
	}
	e.unsupp(n, "expected a sequence, got %T", v)
	return ""
}

func constVal(cv constant.Value, t types.Type, fx *FuncCtx) Val {
	switch cv.Kind() {
	case constant.Bool:
		if constant.BoolVal(cv) {
			return VBool{"true"}
		}
		return VBool{"false"}
	case constant.Int:
		if i, ok := constant.Int64Val(cv); ok {
			return VInt{sInt(i)}
		}
		if u, ok := constant.Uint64Val(cv); ok {
			return VInt{fmt.Sprintf("%d", u)}
		}
	case constant.String:
		return fx.strLit(constant.StringVal(cv))
	}
	panic(unsupported{fmt.Sprintf("unsupported constant %s", cv)})
}

func (e *Ev) ev(x ast.Expr) Val {
	switch x := x.(type) {
	case *ast.ParenExpr:
		return e.ev(x.X)
	case *ast.BasicLit:
		return e.evLit(x)
	case *ast.Ident:
		return e.evIdent(x)
	case *ast.BinaryExpr:
		return e.evBinary(x)
	case *ast.UnaryExpr:
		return e.evUnary(x)
	case *ast.IndexExpr:
		return e.evIndex(x, false)
	case *ast.SliceExpr:
		return e.evSlice(x)
	case *ast.SelectorExpr:
		return e.evSelector(x)
	case *ast.CallExpr:
		return e.evCall(x)
	case *ast.CompositeLit:
		return e.evComposite(x)
	case *ast.TypeAssertExpr:
		return e.evTypeAssert(x, false)
	case *ast.StarExpr:
		return e.evStar(x)
	case *ast.FuncLit:
		if !e.contract && e.fx.con != nil {
			// a function literal with a "closure N" block in the contract is verified against it for one
			// call with arbitrary arguments; the value itself is handed on as an opaque function
			e.fx.nclosure++
			if cc := e.fx.con.Closures[e.fx.nclosure]; cc != nil {
				e.verifyClosure(x, cc, e.fx.nclosure)
				return VFuncParam{Nil: "false"}
			}
		}
		if !e.contract && e.fx.con != nil && e.fx.con.Options["closures"] == "unverified" {
			// the literal is only handed over as a value; its body is NOT verified (stated by the
			// contract option and listed in the evidence)
			e.fx.trusted["the body of the function literal at "+e.fx.pos(x.Pos())+" is not verified (it is passed on as a value)"] = true
			return VFuncParam{Nil: "false"}
		}
		e.unsupp(x, "function literal")
	}
	e.unsupp(x, "unsupported expression %T", x)
	return nil
}

func (e *Ev) evLit(x *ast.BasicLit) Val {
	switch x.Kind {
	case token.INT:
		n, err := strconv.ParseInt(x.Value, 0, 64)
		if err != nil {
			u, err2 := strconv.ParseUint(x.Value, 0, 64)
			if err2 != nil {
				e.unsupp(x, "bad int literal %s", x.Value)
			}
			return VInt{fmt.Sprintf("%d", u)}
		}
		return VInt{sInt(n)}
	case token.CHAR:
		r, _, _, err := strconv.UnquoteChar(x.Value[1:len(x.Value)-1], '\'')
		if err != nil {
			e.unsupp(x, "bad char literal %s", x.Value)
		}
		return VInt{sInt(int64(r))}
	case token.STRING:
		s, err := strconv.Unquote(x.Value)
		if err != nil {
			e.unsupp(x, "bad string literal %s", x.Value)
		}
		return e.fx.strLit(s)
	}
	e.unsupp(x, "unsupported literal %s", x.Value)
	return nil
}

func (e *Ev) evIdent(x *ast.Ident) Val {
	if e.contract {
		if v, ok := e.bound[x.Name]; ok {
			return v
		}
		switch x.Name {
		case "true":
			return VBool{"true"}
		case "false":
			return VBool{"false"}
		case "nil":
			return VNil{}
		case "empty":
			e.fx.useSeq = true
			return VSeq{"bs_empty"}
		}
		if tg, ok := ghostTags[x.Name]; ok {
			return VInt{fmt.Sprintf("%d", tg)}
		}
		if e.lookup != nil {
			if v, ok := e.lookup(x.Name); ok {
				return v
			}
		}
		if e.pkg != nil {
			if obj := e.pkg.Scope().Lookup(x.Name); obj != nil {
				return e.evObject(obj, x)
			}
		}
		panic(unsupported{fmt.Sprintf("contract identifier %q does not resolve", x.Name)})
	}
	if tv, ok := e.info.Types[x]; ok && tv.Value != nil {
		return constVal(tv.Value, tv.Type, e.fx)
	}
	obj := e.info.Uses[x]
	if obj == nil {
		obj = e.info.Defs[x]
	}
	if obj == nil {
		e.unsupp(x, "unresolved identifier %s", x.Name)
	}
	return e.evObject(obj, x)
}

func (e *Ev) evObject(obj types.Object, n ast.Node) Val {
	switch o := obj.(type) {
	case *types.Const:
		return constVal(o.Val(), o.Type(), e.fx)
	case *types.Nil:
		return VNil{}
	case *types.Func:
		return VFuncRef{funcKey(o)}
	case *types.Var:
		if v, ok := e.st.env[o]; ok {
			return v
		}
		if o.Parent() == o.Pkg().Scope() {
			return e.fx.globalVal(o, e)
		}
		e.unsupp(n, "variable %s has no value in this state", o.Name())
	}
	e.unsupp(n, "unsupported object %T %s", obj, obj.Name())
	return nil
}

func (e *Ev) typeOf(x ast.Expr) types.Type {
	if e.contract || e.info == nil {
		return nil
	}
	return e.info.TypeOf(x)
}

func (e *Ev) evUnary(x *ast.UnaryExpr) Val {
	switch x.Op {
	case token.NOT:
		return VBool{sNot(e.boolOf(e.ev(x.X), x))}
	case token.SUB:
		return VInt{"(- " + e.intOf(e.ev(x.X), x) + ")"}
	case token.ADD:
		return e.ev(x.X)
	case token.AND:
		if id, ok := x.X.(*ast.Ident); ok && !e.contract {
			obj := e.info.Uses[id]
			if v, ok := e.st.env[obj]; ok {
				if _, isBuf := v.(VBuf); isBuf {
					return VBufPtr{obj}
				}
			}
		}
		return e.evAddr(x)
	}
	e.unsupp(x, "unsupported unary operator %s", x.Op)
	return nil
}

func (e *Ev) evBinary(x *ast.BinaryExpr) Val {
	switch x.Op {
	case token.LAND:
		a := e.boolOf(e.ev(x.X), x.X)
		if e.contract {
			return VBool{sAnd(a, e.boolOf(e.ev(x.Y), x.Y))}
		}
		pc := e.fx.name(sortBool, "pc", sAnd(e.st.pc, a))
		b := e.boolOf(e.withPC(pc).ev(x.Y), x.Y)
		return VBool{sAnd(a, b)}
	case token.LOR:
		a := e.boolOf(e.ev(x.X), x.X)
		if e.contract {
			return VBool{sOr(a, e.boolOf(e.ev(x.Y), x.Y))}
		}
		pc := e.fx.name(sortBool, "pc", sAnd(e.st.pc, sNot(a)))
		b := e.boolOf(e.withPC(pc).ev(x.Y), x.Y)
		return VBool{sOr(a, b)}
	}
	l := e.ev(x.X)
	r := e.ev(x.Y)
	return e.binop(x.Op, l, r, x)
}

func (e *Ev) strEq(a, b VStr) Term {
	if a.Lit != nil && b.Lit != nil {
		if *a.Lit == *b.Lit {
			return "true"
		}
		return "false"
	}
	if b.Lit != nil {
		a, b = b, a
	}
	if a.Lit != nil {
		s := *a.Lit
		cs := []Term{sEq(b.L, fmt.Sprintf("%d", len(s)))}
		for i := 0; i < len(s); i++ {
			cs = append(cs, fmt.Sprintf("(= (select %s %s) %d)", b.B, sAdd(b.O, fmt.Sprintf("%d", i)), s[i]))
		}
		return sAnd(cs...)
	}
	if a.B == b.B && a.O == b.O && a.L == b.L {
		return "true"
	}
	return "(= " + e.fx.seqOf(a) + " " + e.fx.seqOf(b) + ")"
}

func (e *Ev) binop(op token.Token, l, r Val, n ast.Node) Val {
	// nil comparisons
	if _, ok := l.(VNil); ok {
		l, r = r, l
		if _, ok2 := l.(VNil); ok2 {
			switch op {
			case token.EQL:
				return VBool{"true"}
			case token.NEQ:
				return VBool{"false"}
			}
		}
	}
	if _, ok := r.(VNil); ok {
		var t Term
		switch x := l.(type) {
		case VErr:
			t = sEq(x.T, "0")
		case VRef:
			t = sEq(x.T, "0")
		case VStrs:
			t = sEq(x.N, "0") // nil slice vs empty slice are not distinguished
			e.unsupp(n, "comparison of a []string with nil is not modelled")
		case VInt:
			t = sEq(x.T, "0")
		case VSubmatch:
			t = sNot(x.Hit)
		case VMapRef:
			t = sEq(x.T, "0")
		case VFuncParam:
			t = x.Nil
		default:
			e.unsupp(n, "comparison of %T with nil", l)
		}
		switch op {
		case token.EQL:
			return VBool{t}
		case token.NEQ:
			return VBool{sNot(t)}
		}
		e.unsupp(n, "bad nil comparison")
	}
	if se, ok := r.(VSubElem); ok {
		l, r = se, l
	}
	if se, ok := l.(VSubElem); ok {
		lit, ok := r.(VStr)
		if !ok || lit.Lit == nil || (op != token.EQL && op != token.NEQ) {
			e.unsupp(n, "a submatch can only be compared with a literal")
		}
		lang, ok := e.fx.prog.groupChar(se.Sub.Var, se.Idx, *lit.Lit)
		if !ok {
			e.unsupp(n, "no groupchar directive for group %d of %s equal to %q", se.Idx, se.Sub.Var, *lit.Lit)
		}
		e.fx.langsUsed[lang] = true
		e.fx.trusted[fmt.Sprintf("groupchar: group %d of %s equals %q exactly on the strings of %s (bounded stand-in, validated against package regexp on every run)", se.Idx, se.Sub.Var, *lit.Lit, lang)] = true
		t := "(inlang_" + lang + " " + se.Sub.In + ")"
		if op == token.NEQ {
			t = sNot(t)
		}
		return VBool{t}
	}
	if e.contract && (op == token.EQL || op == token.NEQ) {
		// in clauses a bound reference variable (an integer) may be compared with a reference
		li, lok := l.(VInt)
		rr, rok := r.(VRef)
		if !lok || !rok {
			if lr, ok := l.(VRef); ok {
				if ri, ok := r.(VInt); ok {
					li, rr, lok, rok = ri, lr, true, true
				}
			}
		}
		if lok && rok {
			t := sEq(li.T, rr.T)
			if op == token.NEQ {
				t = sNot(t)
			}
			return VBool{t}
		}
	}
	switch a := l.(type) {
	case VInt:
		b, ok := r.(VInt)
		if !ok {
			e.unsupp(n, "mixed operands %T %T", l, r)
		}
		switch op {
		case token.ADD:
			return e.arith(n, "(+ "+a.T+" "+b.T+")")
		case token.SUB:
			return e.arith(n, "(- "+a.T+" "+b.T+")")
		case token.MUL:
			return e.arith(n, "(* "+a.T+" "+b.T+")")
		case token.QUO:
			e.safety("divzero", "divzero", n.Pos(), sNot(sEq(b.T, "0")), "division by zero")
			e.safety("divsign", "divsign", n.Pos(), sAnd(sLe("0", a.T), sLt("0", b.T)), "division of non-negative operands (Int div agrees with Go / only then)")
			return VInt{"(div " + a.T + " " + b.T + ")"}
		case token.REM:
			e.safety("divzero", "divzero", n.Pos(), sNot(sEq(b.T, "0")), "modulo by zero")
			e.safety("divsign", "divsign", n.Pos(), sAnd(sLe("0", a.T), sLt("0", b.T)), "modulo of non-negative operands")
			return VInt{"(mod " + a.T + " " + b.T + ")"}
		case token.OR:
			if k, ok := powerOfTwo(b.T); ok {
				// a | 2^k for non-negative a
				return VInt{fmt.Sprintf("(ite (= (mod (div %s %d) 2) 1) %s (+ %s %d))", a.T, k, a.T, a.T, k)}
			}
			e.unsupp(n, "bitwise | with non-power-of-two operand")
		case token.AND:
			if b.T == "255" {
				return VInt{"(mod " + a.T + " 256)"}
			}
			e.unsupp(n, "bitwise & not modelled")
		case token.EQL:
			return VBool{sEq(a.T, b.T)}
		case token.NEQ:
			return VBool{sNot(sEq(a.T, b.T))}
		case token.LSS:
			return VBool{sLt(a.T, b.T)}
		case token.LEQ:
			return VBool{sLe(a.T, b.T)}
		case token.GTR:
			return VBool{sLt(b.T, a.T)}
		case token.GEQ:
			return VBool{sLe(b.T, a.T)}
		}
	case VBool:
		b, ok := r.(VBool)
		if !ok {
			e.unsupp(n, "mixed operands %T %T", l, r)
		}
		switch op {
		case token.EQL:
			return VBool{sEq(a.T, b.T)}
		case token.NEQ:
			return VBool{sNot(sEq(a.T, b.T))}
		case token.LAND:
			return VBool{sAnd(a.T, b.T)}
		case token.LOR:
			return VBool{sOr(a.T, b.T)}
		}
	case VStr:
		b, ok := r.(VStr)
		if !ok {
			if sq, ok2 := r.(VSeq); ok2 && (op == token.EQL || op == token.NEQ) {
				t := sEq(e.fx.seqOf(a), sq.T)
				if op == token.NEQ {
					t = sNot(t)
				}
				return VBool{t}
			}
			e.unsupp(n, "mixed operands %T %T", l, r)
		}
		switch op {
		case token.EQL:
			return VBool{e.strEq(a, b)}
		case token.NEQ:
			return VBool{sNot(e.strEq(a, b))}
		case token.ADD:
			return e.fx.concat(e.st.pc, a, b)
		}
	case VSeq:
		var bt Term
		switch b := r.(type) {
		case VSeq:
			bt = b.T
		case VStr:
			bt = e.fx.seqOf(b)
		default:
			e.unsupp(n, "mixed operands %T %T", l, r)
		}
		switch op {
		case token.EQL:
			return VBool{sEq(a.T, bt)}
		case token.NEQ:
			return VBool{sNot(sEq(a.T, bt))}
		}
	case VErr:
		if b, ok := r.(VErr); ok {
			switch op {
			case token.EQL:
				return VBool{sEq(a.T, b.T)}
			case token.NEQ:
				return VBool{sNot(sEq(a.T, b.T))}
			}
		}
	case VMapRef:
		if b, ok := r.(VMapRef); ok {
			switch op {
			case token.EQL:
				return VBool{sEq(a.T, b.T)}
			case token.NEQ:
				return VBool{sNot(sEq(a.T, b.T))}
			}
		}
	case VRef:
		if bi, ok := r.(VInt); ok && e.contract {
			r = VRef{bi.T, a.Elem}
		}
		if b, ok := r.(VRef); ok {
			switch op {
			case token.EQL:
				return VBool{sEq(a.T, b.T)}
			case token.NEQ:
				return VBool{sNot(sEq(a.T, b.T))}
			}
		}
	}
	e.unsupp(n, "unsupported binary operation %T %s %T", l, op, r)
	return nil
}

func powerOfTwo(t Term) (int64, bool) {
	n, err := strconv.ParseInt(t, 10, 64)
	if err != nil || n <= 0 || n&(n-1) != 0 {
		return 0, false
	}
	return n, true
}

// arith names the result and (code mode) emits an overflow obligation for the static type.
func (e *Ev) arith(n ast.Node, t Term) Val {
	if e.contract {
		return VInt{t}
	}
	nm := e.fx.name(sortInt, "a", t)
	if x, ok := n.(ast.Expr); ok {
		if ty := e.typeOf(x); ty != nil {
			if b, ok := ty.Underlying().(*types.Basic); ok {
				if lo, hi, ok := intRange(b); ok {
					e.safety("overflow", "overflow", n.Pos(), sAnd(sLe(lo, nm), sLe(nm, hi)), "no "+b.Name()+" overflow")
				}
			}
		}
	}
	return VInt{nm}
}

// concat models a + b on strings: a fresh view whose contents are the concatenation.
func (fx *FuncCtx) concat(pc Term, parts ...VStr) VStr {
	fx.useSeq = true
	var seqs []Term
	var lens []Term
	for _, p := range parts {
		seqs = append(seqs, fx.seqOf(p))
		lens = append(lens, p.L)
	}
	r := fx.freshStr("cat")
	total := lens[0]
	for _, l := range lens[1:] {
		total = sAdd(total, l)
	}
	fx.assume(pc, sAnd(sEq(r.L, total), sEq(fx.seqOf(r), seqCat(seqs...))))
	return r
}

func (e *Ev) evIndex(x *ast.IndexExpr, commaOk bool) Val {
	base := e.ev(x.X)
	switch b := base.(type) {
	case VStr:
		i := e.intOf(e.ev(x.Index), x.Index)
		e.safety("index", "index", x.Pos(), sAnd(sLe("0", i), sLt(i, b.L)), "index in range of "+exprString(x.X))
		return e.fx.byteAt(b, i, e.contract)
	case VArr:
		i := e.intOf(e.ev(x.Index), x.Index)
		if t := e.typeOf(x.X); t != nil {
			if at, ok := t.Underlying().(*types.Array); ok {
				e.safety("index", "index", x.Pos(), sAnd(sLe("0", i), sLt(i, fmt.Sprintf("%d", at.Len()))), "array index in range")
			}
		}
		if b.Bool {
			return VBool{sSel(b.T, i)}
		}
		return VInt{sSel(b.T, i)}
	case VStrs:
		i := e.intOf(e.ev(x.Index), x.Index)
		e.safety("index", "index", x.Pos(), sAnd(sLe("0", i), sLt(i, b.N)), "index in range of "+exprString(x.X))
		return wrapElem(b, e.fx.strAt(b, i, e.contract))
	case VIfaces:
		i := e.intOf(e.ev(x.Index), x.Index)
		e.safety("index", "index", x.Pos(), sAnd(sLe("0", i), sLt(i, b.N)), "index in range of "+exprString(x.X))
		return e.fx.ifaceAt(b, i, e.contract)
	case VRefs:
		i := e.intOf(e.ev(x.Index), x.Index)
		e.safety("index", "index", x.Pos(), sAnd(sLe("0", i), sLt(i, b.N)), "index in range of "+exprString(x.X))
		return VRef{sSel(b.Arr, i), b.Elem}
	case VMapTab:
		key := e.ev(x.Index)
		v, ok := e.mapTabLookup(b, key, x)
		if commaOk {
			return VTuple{v, VBool{ok}}
		}
		return v
	case VArrLit:
		i := e.intOf(e.ev(x.Index), x.Index)
		e.safety("index", "index", x.Pos(), sAnd(sLe("0", i), sLt(i, fmt.Sprintf("%d", b.Len))), "table index in range of "+exprString(x.X))
		return e.arrLitIndex(b, i, x)
	case VHeapMap:
		return e.heapMapLookup(b, e.ev(x.Index), commaOk, x)
	case VStrMap:
		return e.strMapLookup(b, e.ev(x.Index), commaOk, x)
	case VMapRef:
		return e.mapRefLookup(b, e.ev(x.Index), commaOk, x)
	case VSubmatch:
		i := e.intOf(e.ev(x.Index), x.Index)
		k, err := strconv.Atoi(i)
		if err != nil {
			e.unsupp(x, "submatch index must be constant")
		}
		e.safety("index", "index", x.Pos(), sAnd(b.Hit, sLt(i, fmt.Sprintf("%d", b.N))), "submatch index in range")
		return VSubElem{b, k}
	case VFuncTable:
		i := e.intOf(e.ev(x.Index), x.Index)
		e.safety("index", "index", x.Pos(), sAnd(sLe("0", i), sLt(i, fmt.Sprintf("%d", len(b.Keys)))), "function table index in range")
		return VFuncPick{b, i}
	}
	e.unsupp(x, "unsupported index base %T", base)
	return nil
}

func (fx *FuncCtx) byteAt(b VStr, i Term, pure bool) Val {
	if b.Lit != nil {
		if k, err := strconv.Atoi(i); err == nil && k >= 0 && k < len(*b.Lit) {
			return VInt{fmt.Sprintf("%d", (*b.Lit)[k])}
		}
	}
	t := sSel(b.B, sAdd(b.O, i))
	if pure {
		return VInt{t}
	}
	nm := fx.name(sortInt, "c", t)
	fx.emit(fmt.Sprintf("(assert (and (<= 0 %s) (<= %s 255)))", nm, nm))
	return VInt{nm}
}

func (fx *FuncCtx) strAt(b VStrs, i Term, pure bool) VStr {
	if pure {
		return VStr{B: sSel(b.B, i), O: sSel(b.O, i), L: sSel(b.L, i)}
	}
	o := fx.name(sortInt, "eo", sSel(b.O, i))
	l := fx.name(sortInt, "el", sSel(b.L, i))
	fx.emit(fmt.Sprintf("(assert (and (<= 0 %s) (<= 0 %s) (< %s %s) (< %s %s)))", o, l, l, maxLen, o, maxLen))
	return VStr{B: sSel(b.B, i), O: o, L: l}
}

func (fx *FuncCtx) ifaceAt(b VIfaces, i Term, pure bool) VIface {
	if pure {
		return VIface{Tag: sSel(b.Tag, i), S: VStr{B: sSel(b.B, i), O: sSel(b.O, i), L: sSel(b.L, i)}}
	}
	o := fx.name(sortInt, "io", sSel(b.O, i))
	l := fx.name(sortInt, "il", sSel(b.L, i))
	fx.emit(fmt.Sprintf("(assert (and (<= 0 %s) (<= 0 %s) (< %s %s) (< %s %s)))", o, l, l, maxLen, o, maxLen))
	return VIface{Tag: fx.name(sortInt, "it", sSel(b.Tag, i)), S: VStr{B: sSel(b.B, i), O: o, L: l}}
}

func (e *Ev) evSlice(x *ast.SliceExpr) Val {
	base := e.ev(x.X)
	if x.Slice3 {
		e.unsupp(x, "3-index slice")
	}
	switch b := base.(type) {
	case VStr:
		lo, hi := "0", b.L
		if x.Low != nil {
			lo = e.intOf(e.ev(x.Low), x.Low)
		}
		if x.High != nil {
			hi = e.intOf(e.ev(x.High), x.High)
		}
		e.safety("slice", "slice", x.Pos(), sAnd(sLe("0", lo), sLe(lo, hi), sLe(hi, b.L)), "slice bounds in range of "+exprString(x.X))
		if b.Lit != nil {
			l, err1 := strconv.Atoi(lo)
			h, err2 := strconv.Atoi(hi)
			if err1 == nil && err2 == nil && 0 <= l && l <= h && h <= len(*b.Lit) {
				return e.fx.strLit((*b.Lit)[l:h])
			}
		}
		if e.contract {
			return VStr{B: b.B, O: sAdd(b.O, lo), L: sSub(hi, lo)}
		}
		return VStr{B: b.B, O: e.fx.name(sortInt, "so", sAdd(b.O, lo)), L: e.fx.name(sortInt, "sl", sSub(hi, lo))}
	case VStrs:
		if e.contract {
			e.unsupp(x, "slicing of []string in a contract")
		}
		lo, hi := "0", b.N
		if x.Low != nil {
			lo = e.intOf(e.ev(x.Low), x.Low)
		}
		if x.High != nil {
			hi = e.intOf(e.ev(x.High), x.High)
		}
		// the capacity is not modelled: hi <= len is demanded (stricter than Go's hi <= cap)
		e.safety("slice", "slice", x.Pos(), sAnd(sLe("0", lo), sLe(lo, hi), sLe(hi, b.N)), "slice bounds in range of "+exprString(x.X))
		if lo == "0" {
			return VStrs{B: b.B, O: b.O, L: b.L, N: e.fx.name(sortInt, "sn", hi)}
		}
		fx := e.fx
		nb, no, nl := fx.declare(sortArrArr, "slb"), fx.declare(sortArr, "slo"), fx.declare(sortArr, "sll")
		for _, pr := range [][2]Term{{nb, b.B}, {no, b.O}, {nl, b.L}} {
			fx.emit(fmt.Sprintf("(assert (forall ((k Int)) (! (= (select %s k) (select %s (+ k %s))) :pattern ((select %s k)))))", pr[0], pr[1], lo, pr[0]))
		}
		return VStrs{B: nb, O: no, L: nl, N: fx.name(sortInt, "sn", sSub(hi, lo))}
	case VRefs:
		if e.contract {
			e.unsupp(x, "slicing of a slice of references in a contract")
		}
		lo, hi := "0", b.N
		if x.Low != nil {
			lo = e.intOf(e.ev(x.Low), x.Low)
		}
		if x.High != nil {
			hi = e.intOf(e.ev(x.High), x.High)
		}
		e.safety("slice", "slice", x.Pos(), sAnd(sLe("0", lo), sLe(lo, hi), sLe(hi, b.N)), "slice bounds in range of "+exprString(x.X))
		if lo == "0" {
			return VRefs{Arr: b.Arr, N: e.fx.name(sortInt, "rn", hi), Elem: b.Elem}
		}
		fx := e.fx
		na := fx.declare(sortArr, "sl_refs")
		fx.emit(fmt.Sprintf("(assert (forall ((k Int)) (! (= (select %s k) (select %s (+ k %s))) :pattern ((select %s k)))))", na, b.Arr, lo, na))
		return VRefs{Arr: na, N: fx.name(sortInt, "rn", sSub(hi, lo)), Elem: b.Elem}
	}
	e.unsupp(x, "unsupported slice base %T", base)
	return nil
}

func (e *Ev) evSelector(x *ast.SelectorExpr) Val {
	// qualified identifier?
	if !e.contract {
		if tv, ok := e.info.Types[x]; ok && tv.Value != nil {
			return constVal(tv.Value, tv.Type, e.fx)
		}
		if id, ok := x.X.(*ast.Ident); ok {
			if _, isPkg := e.info.Uses[id].(*types.PkgName); isPkg {
				obj := e.info.Uses[x.Sel]
				switch o := obj.(type) {
				case *types.Const:
					return constVal(o.Val(), o.Type(), e.fx)
				case *types.Func:
					return VFuncRef{funcKey(o)}
				case *types.Var:
					return e.fx.externVar(o, e)
				}
				e.unsupp(x, "unsupported package member %s.%s", id.Name, x.Sel.Name)
			}
		}
	}
	base := e.ev(x.X)
	return e.fieldOf(base, x.Sel.Name, x)
}

func (e *Ev) fieldOf(base Val, name string, n ast.Node) Val {
	switch b := base.(type) {
	case VStruct:
		if v, ok := b.F[name]; ok {
			return v
		}
		// promoted field through an embedded struct / pointer
		for _, fn := range b.Names {
			switch inner := b.F[fn].(type) {
			case VStruct:
				if _, ok := inner.F[name]; ok {
					return inner.F[name]
				}
			case VRef:
				if e.fx.prog.heapHasField(inner.Elem, name) {
					return e.heapRead(inner, name, n)
				}
			}
		}
		e.unsupp(n, "struct %s has no field %s", b.TName, name)
	case VRef:
		if e.fx.prog.fieldType(b.Elem, name) == nil {
			// promoted through an embedded pointer
			stt := e.fx.prog.structByName(b.Elem)
			if stt != nil {
				for i := 0; i < stt.NumFields(); i++ {
					f := stt.Field(i)
					if !f.Embedded() {
						continue
					}
					if en, ok := elemName(f.Type()); ok && e.fx.prog.heapHasField(en, name) {
						inner := e.heapRead(b, f.Name(), n).(VRef)
						return e.heapRead(inner, name, n)
					}
				}
			}
		}
		return e.heapRead(b, name, n)
	case VSub:
		return e.subField(b, name, n)
	case VErr:
		// fields of *Error only feed message texts: an unknown value of the field's type
		if !e.contract {
			if ex, ok := n.(ast.Expr); ok {
				if t := e.typeOf(ex); t != nil {
					return e.fx.fresh(t, "errfield_"+name)
				}
			}
		}
		e.unsupp(n, "field %s of an error value is not modelled", name)
	}
	e.unsupp(n, "selector .%s on %T", name, base)
	return nil
}

func (e *Ev) evComposite(x *ast.CompositeLit) Val {
	t := e.typeOf(x)
	if t == nil {
		e.unsupp(x, "composite literal in contract")
	}
	switch u := t.Underlying().(type) {
	case *types.Map:
		if len(x.Elts) == 0 && !e.contract {
			return e.makeMap(u, x)
		}
	case *types.Struct:
		v := e.fx.zero(t).(VStruct)
		v = cloneStruct(v)
		for i, el := range x.Elts {
			if kv, ok := el.(*ast.KeyValueExpr); ok {
				fn := kv.Key.(*ast.Ident).Name
				v.F[fn] = e.coerceTo(e.ev(kv.Value), u.Field(fieldIndex(u, fn)).Type(), kv.Value)
			} else {
				v.F[u.Field(i).Name()] = e.coerceTo(e.ev(el), u.Field(i).Type(), el)
			}
		}
		return v
	case *types.Slice:
		if b, ok := u.Elem().Underlying().(*types.Basic); ok && b.Info()&types.IsString != 0 {
			r := e.fx.nilStrs()
			bb, oo, ll := r.B, r.O, r.L
			for i, el := range x.Elts {
				s, ok := e.ev(el).(VStr)
				if !ok {
					e.unsupp(el, "non-string element")
				}
				k := fmt.Sprintf("%d", i)
				bb = fmt.Sprintf("(store %s %s %s)", bb, k, s.B)
				oo = fmt.Sprintf("(store %s %s %s)", oo, k, s.O)
				ll = fmt.Sprintf("(store %s %s %s)", ll, k, s.L)
			}
			return VStrs{B: e.fx.name(sortArrArr, "sb", bb), O: e.fx.name(sortArr, "so", oo), L: e.fx.name(sortArr, "sl", ll), N: fmt.Sprintf("%d", len(x.Elts))}
		}
		if en, ok := refLikeElem(u.Elem()); ok && !e.contract {
			// a slice literal of references / modelled interface values
			arr := "((as const (Array Int Int)) 0)"
			for i, el := range x.Elts {
				if _, isKV := el.(*ast.KeyValueExpr); isKV {
					e.unsupp(el, "keyed element in a slice literal of references")
				}
				var rt Term
				switch rv := e.ev(el).(type) {
				case VRef:
					rt = rv.T
				case VNil:
					rt = "0"
				default:
					e.unsupp(el, "element of a slice literal of references")
				}
				arr = fmt.Sprintf("(store %s %d %s)", arr, i, rt)
			}
			return VRefs{Arr: e.fx.name(sortArr, "ra", arr), N: fmt.Sprintf("%d", len(x.Elts)), Elem: en}
		}
		if b, ok := u.Elem().Underlying().(*types.Basic); ok && (b.Kind() == types.Int32 || b.Kind() == types.Uint8) {
			// []rune{consts} / []byte{consts}: constant fold to a string
			var sb strings.Builder
			for _, el := range x.Elts {
				tv := e.info.Types[el]
				if tv.Value == nil {
					e.unsupp(el, "non-constant element in rune/byte literal")
				}
				n, _ := constant.Int64Val(tv.Value)
				if b.Kind() == types.Int32 {
					sb.WriteRune(rune(n))
				} else {
					sb.WriteByte(byte(n))
				}
			}
			return e.fx.strLit(sb.String())
		}
	}
	e.unsupp(x, "unsupported composite literal of type %s", t)
	return nil
}

func fieldIndex(st *types.Struct, name string) int {
	for i := 0; i < st.NumFields(); i++ {
		if st.Field(i).Name() == name {
			return i
		}
	}
	panic(unsupported{"no field " + name})
}

// coerceTo adapts a value to a static Go type (nil to typed nil, etc.).
func (e *Ev) coerceTo(v Val, t types.Type, n ast.Node) Val {
	if _, ok := v.(VNil); ok && t != nil {
		return e.fx.zero(t)
	}
	if t != nil && isErrorLike(t) {
		if r, ok := v.(VRef); ok {
			return VErr{r.T} // a pointer to an error struct used as an error value
		}
	}
	if t != nil && isEmptyInterface(t) {
		return e.toIface(v, n)
	}
	return v
}

func exprString(x ast.Expr) string {
	switch x := x.(type) {
	case *ast.Ident:
		return x.Name
	case *ast.SelectorExpr:
		return exprString(x.X) + "." + x.Sel.Name
	case *ast.IndexExpr:
		return exprString(x.X) + "[…]"
	case *ast.SliceExpr:
		return exprString(x.X) + "[:]"
	case *ast.CallExpr:
		return exprString(x.Fun) + "(…)"
	case *ast.ParenExpr:
		return "(" + exprString(x.X) + ")"
	case *ast.StarExpr:
		return "*" + exprString(x.X)
	}
	return fmt.Sprintf("%T", x)
}

func funcKey(f *types.Func) string {
	sig := f.Type().(*types.Signature)
	pkg := ""
	if f.Pkg() != nil {
		pkg = f.Pkg().Path()
	}
	if r := sig.Recv(); r != nil {
		t := r.Type()
		if p, ok := t.(*types.Pointer); ok {
			t = p.Elem()
		}
		if n, ok := t.(*types.Named); ok {
			return pkg + ".(" + n.Obj().Name() + ")." + f.Name()
		}
		return pkg + ".(?)." + f.Name()
	}
	return pkg + "." + f.Name()
}

// wrapElem: a []T of single-string structs is modelled as the []string of their fields.
func wrapElem(b VStrs, s VStr) Val {
	if b.Wrap == "" {
		return s
	}
	return VStruct{TName: b.Wrap, Names: []string{b.WrapField}, F: map[string]Val{b.WrapField: s}}
}
