package main

// The reviewed sanitization policy (C04, C02, C03): "policy ..." directives of /verif/spec/policy.spec
// are turned into SMT functions over string views, the same shape the code tables get.

import (
	"fmt"
	"go/constant"
	"go/types"
	"sort"
	"strings"
)

func litEqTerm(prefix string, lit string) Term {
	cs := []Term{fmt.Sprintf("(= %s_l %d)", prefix, len(lit))}
	for i := 0; i < len(lit); i++ {
		cs = append(cs, fmt.Sprintf("(= (select %s_b (+ %s_o %d)) %d)", prefix, prefix, i, lit[i]))
	}
	return sAnd(cs...)
}

func (p *Prog) buildPolicy() error {
	ents := p.spec.Raw["policy"]
	if len(ents) == 0 {
		return nil
	}
	classes := map[string]int{}
	type kv struct {
		k1, k2 string
		cls    string
	}
	var specific, global, content []kv
	var voids, linkrels []string
	var enumwords []kv
	for _, r := range ents {
		f := strings.Fields(r.Text)
		bad := func() error { return fmt.Errorf("%s:%d: bad policy directive %q", r.File, r.Line, r.Text) }
		if len(f) < 2 {
			return bad()
		}
		switch f[0] {
		case "class":
			if len(f) != 3 {
				return bad()
			}
			var n int
			fmt.Sscanf(f[2], "%d", &n)
			classes[f[1]] = n
		case "attr":
			if len(f) != 4 {
				return bad()
			}
			specific = append(specific, kv{f[1], f[2], f[3]})
		case "global":
			if len(f) != 3 {
				return bad()
			}
			global = append(global, kv{f[1], "", f[2]})
		case "content":
			if len(f) != 3 {
				return bad()
			}
			content = append(content, kv{f[1], "", f[2]})
		case "void":
			voids = append(voids, f[1])
		case "linkrel":
			linkrels = append(linkrels, f[1])
		case "enumword":
			if len(f) != 3 {
				return bad()
			}
			enumwords = append(enumwords, kv{f[2], "", f[1]})
		default:
			return bad()
		}
	}
	cls := func(n string) (int, error) {
		v, ok := classes[n]
		if !ok {
			return 0, fmt.Errorf("policy: unknown class %s", n)
		}
		return v, nil
	}
	add := func(name string, params []SpecParam, ret string, body string) {
		var ps []string
		for _, pa := range params {
			if pa.Type == "str" {
				ps = append(ps, fmt.Sprintf("(%s_b (Array Int Int)) (%s_o Int) (%s_l Int)", pa.Name, pa.Name, pa.Name))
			} else {
				ps = append(ps, fmt.Sprintf("(%s %s)", pa.Name, specSort(pa.Type)))
			}
		}
		sf := &SpecFunc{Name: name, Params: params, Ret: ret, File: "policy", Prerendered: fmt.Sprintf("(define-fun %s (%s) %s %s)", name, strings.Join(ps, " "), specSort(ret), body)}
		p.spec.Funcs[name] = sf
		p.spec.FuncOrder = append(p.spec.FuncOrder, name)
	}
	// class constants
	var cn []string
	for n := range classes {
		cn = append(cn, n)
	}
	sort.Strings(cn)
	for _, n := range cn {
		add("cls_"+n, nil, "int", fmt.Sprintf("%d", classes[n]))
	}
	chain := func(items []kv, two bool) (string, error) {
		acc := "0"
		for i := len(items) - 1; i >= 0; i-- {
			c, err := cls(items[i].cls)
			if err != nil {
				return "", err
			}
			cond := litEqTerm("a", items[i].k1)
			if two {
				cond = sAnd(cond, litEqTerm("e", items[i].k2))
			}
			acc = fmt.Sprintf("(ite %s %d %s)", cond, c, acc)
		}
		return acc, nil
	}
	t, err := chain(specific, true)
	if err != nil {
		return err
	}
	add("pol_specific", []SpecParam{{"a", "str"}, {"e", "str"}}, "int", t)
	if t, err = chain(global, false); err != nil {
		return err
	}
	add("pol_global", []SpecParam{{"a", "str"}}, "int", t)
	if t, err = chain(content, false); err != nil {
		return err
	}
	add("pol_content", []SpecParam{{"a", "str"}}, "int", t)
	set := func(ws []string) string {
		var ds []Term
		for _, w := range ws {
			ds = append(ds, litEqTerm("a", w))
		}
		return sOr(ds...)
	}
	add("pol_void", []SpecParam{{"a", "str"}}, "bool", set(voids))
	add("pol_linkrel", []SpecParam{{"a", "str"}}, "bool", set(linkrels))
	var ews []Term
	for _, ew := range enumwords {
		c, err := cls(ew.cls)
		if err != nil {
			return err
		}
		ews = append(ews, sAnd(fmt.Sprintf("(= c %d)", c), litEqTerm("a", ew.k1)))
	}
	add("pol_enumword", []SpecParam{{"c", "int"}, {"a", "str"}}, "bool", sOr(ews...))
	// classof: the code's enumerators by NAME
	tp := p.byPath[modPath+"/template"]
	if tp != nil {
		acc := "(- 1)"
		var names []string
		for _, n := range tp.Types.Scope().Names() {
			if strings.HasPrefix(n, "sanitizationContext") && n != "sanitizationContext" {
				if _, ok := tp.Types.Scope().Lookup(n).(*types.Const); ok {
					names = append(names, n)
				}
			}
		}
		sort.Strings(names)
		for _, n := range names {
			c := tp.Types.Scope().Lookup(n).(*types.Const)
			v, _ := constant.Int64Val(c.Val())
			short := strings.TrimPrefix(n, "sanitizationContext")
			if cv, ok := classes[short]; ok {
				acc = fmt.Sprintf("(ite (= sc %d) %d %s)", v, cv, acc)
			}
		}
		add("classof", []SpecParam{{"sc", "int"}}, "int", acc)
	}
	return nil
}
